// Command leak runs ONE secret-dependent primitive between two marker functions so that an
// instruction/address trace of exactly that call can be cut out of a valgrind-lackey log
// (C08).  usage: leak <primitive> <secret-hex> [<public-hex>]
package main

import (
	"bytes"
	"encoding/hex"
	"fmt"
	"os"

	"github.com/bilibili/smgo/sm2"
	"github.com/bilibili/smgo/sm2/internal"
	"github.com/bilibili/smgo/sm2/internal/fiat"
	"github.com/bilibili/smgo/utils"
)

//go:noinline
func LeakBegin() { markers++ }

//go:noinline
func LeakEnd() { markers += 2 }

var sink int
var markers int
var sinkB []byte

func must(b []byte, err error) []byte {
	if err != nil {
		fmt.Fprintln(os.Stderr, "leak:", err)
		os.Exit(3)
	}
	return b
}

func main() {
	if len(os.Args) < 3 {
		fmt.Fprintln(os.Stderr, "usage: leak <primitive> <secret-hex> [<public-hex>]")
		os.Exit(3)
	}
	prim := os.Args[1]
	secret := must(hex.DecodeString(os.Args[2]))
	var public []byte
	if len(os.Args) > 3 {
		public = must(hex.DecodeString(os.Args[3]))
	}
	warm := make([]byte, len(secret))
	for i := range warm {
		warm[i] = byte(7*i + 1)
	}
	run := func(sec []byte, mark bool) {
		switch prim {
		case "cmp": // ConstantTimeCmp(secret, public)
			if mark {
				LeakBegin()
			}
			sink = utils.ConstantTimeCmp(sec, public, len(public))
			if mark {
				LeakEnd()
			}
		case "testpriv":
			if mark {
				LeakBegin()
			}
			sink = sm2.TestPrivateKey(sec)
			if mark {
				LeakEnd()
			}
		case "basemult":
			if mark {
				LeakBegin()
			}
			p, _ := internal.ScalarBaseMult(sec)
			if mark {
				LeakEnd()
			}
			sinkB = p.Bytes_Unsafe()
		case "mult": // ScalarMult(G, secret)
			g := internal.NewSM2Generator()
			if mark {
				LeakBegin()
			}
			p, _ := internal.ScalarMult(g, sec)
			if mark {
				LeakEnd()
			}
			sinkB = p.Bytes_Unsafe()
		case "pinvert":
			x, err := new(fiat.SM2Element).SetBytes(sec)
			if err != nil {
				os.Exit(3)
			}
			z := new(fiat.SM2Element)
			if mark {
				LeakBegin()
			}
			z.Invert(x)
			if mark {
				LeakEnd()
			}
			sinkB = z.Bytes()
		case "ninvert":
			x, err := new(fiat.SM2ScalarElement).SetBytes(sec)
			if err != nil {
				os.Exit(3)
			}
			z := new(fiat.SM2ScalarElement)
			if mark {
				LeakBegin()
			}
			z.Invert(x)
			if mark {
				LeakEnd()
			}
			sinkB = z.Bytes()
		case "nsetbytes": // decoding of a secret scalar (1 + d in SignHashed)
			z := new(fiat.SM2ScalarElement)
			if mark {
				LeakBegin()
			}
			_, err := z.SetBytes(sec)
			if mark {
				LeakEnd()
			}
			if err != nil {
				sink = 1
			}
		case "psetbytes":
			z := new(fiat.SM2Element)
			if mark {
				LeakBegin()
			}
			_, err := z.SetBytes(sec)
			if mark {
				LeakEnd()
			}
			if err != nil {
				sink = 1
			}
		case "select": // masked selection from the 6-3-14 table by a secret index (sec[0])
			first, _ := internal.VerifTables()
			t := first[2][0]
			out := internal.NewSM2Point()
			if mark {
				LeakBegin()
			}
			internal.VerifSelectPoints(out, &t, len(t[0]), sec[0])
			if mark {
				LeakEnd()
			}
			sinkB = out.Bytes_Unsafe()
		case "extract":
			if mark {
				LeakBegin()
			}
			b := internal.VerifExtractHigherBits(sec, 7, 6, 42)
			c := internal.VerifExtractLowerBits(sec, 4)
			if mark {
				LeakEnd()
			}
			sink = int(b) + int(c)
		case "signhashed": // the signing entry point itself: secret = d, public = e (32) || nonce stream (32 per candidate)
			rd := bytes.NewReader(public[32:])
			if mark {
				LeakBegin()
			}
			r, _, err := sm2.SignHashed(rd, sec, public[:32])
			if mark {
				LeakEnd()
			}
			if err != nil {
				os.Exit(3)
			}
			sinkB = r
		case "ptbytes": // safe affine conversion of a point with a secret-dependent Z
			g := internal.NewSM2Generator()
			p, _ := internal.ScalarMult(g, sec)
			if mark {
				LeakBegin()
			}
			b := p.Bytes()
			x := p.GetAffineX()
			if mark {
				LeakEnd()
			}
			sinkB = b
			sink = x.BitLen()
		default:
			fmt.Fprintln(os.Stderr, "leak: unknown primitive", prim)
			os.Exit(3)
		}
	}
	run(warm, false) // warm-up: one-time initialisation and first-touch effects happen here
	run(secret, true)
}
