package main

import (
	"strings"
	"crypto/cipher"
	"fmt"

	"github.com/bilibili/smgo/sm4"
)

type gcmAble interface {
	NewGCM(nonceSize, tagSize int) (cipher.AEAD, error)
}

// hideGCM wraps a Block so that crypto/cipher cannot see its NewGCM method and uses the
// standard library's generic GCM on top of the block's Encrypt.
type hideGCM struct{ cipher.Block }

type aeadObj struct {
	aead cipher.AEAD
}

func newAEAD(key []byte, nonceSize, tagSize int, path string) (cipher.AEAD, string, error) {
	old := sm4.VerifCanDoAsm()
	defer sm4.VerifSetCanDoAsm(old)
	var blk cipher.Block
	var err error
	switch path {
	case "asm":
		blk, err = sm4.NewCipher(key)
	case "generic":
		sm4.VerifSetCanDoAsm(false)
		blk, err = sm4.NewCipher(key)
	case "wrapped":
		blk, err = sm4.NewCipher(key)
		if err == nil {
			blk = hideGCM{blk}
		}
	default:
		panic("harness: unknown path " + path)
	}
	if err != nil {
		return nil, "", err
	}
	var a cipher.AEAD
	switch {
	case nonceSize == 12 && tagSize == 16:
		a, err = cipher.NewGCM(blk)
	case tagSize == 16:
		a, err = cipher.NewGCMWithNonceSize(blk, nonceSize)
	case nonceSize == 12:
		a, err = cipher.NewGCMWithTagSize(blk, tagSize)
	default:
		g, ok := blk.(gcmAble)
		if !ok {
			return nil, "", fmt.Errorf("the cipher does not offer NewGCM(nonceSize, tagSize) (cipher.AEAD, error)")
		}
		a, err = g.NewGCM(nonceSize, tagSize)
	}
	if err != nil {
		return nil, "", err
	}
	return a, fmt.Sprintf("%T", a), nil
}

const canary = 0xA5

// layout builds dst (and possibly the aliased input) for an AEAD call.
//   alias "none":    dst = prefix with `spare` canary bytes of extra capacity (spare < 0: nil dst)
//   alias "inplace": one array holding input followed by `spare` canary bytes; dst = array[:0]
func layout(c Cmd, input []byte) (dst, in, whole []byte) {
	prefix := c.bytes("prefix")
	spare := c.num("spare")
	switch c.str("alias") {
	case "inplace":
		whole = make([]byte, len(input)+spare)
		copy(whole, input)
		for i := len(input); i < len(whole); i++ {
			whole[i] = canary
		}
		return whole[:0], whole[:len(input)], whole
	default:
		if spare < 0 {
			return nil, input, nil
		}
		whole = make([]byte, len(prefix)+spare)
		copy(whole, prefix)
		for i := len(prefix); i < len(whole); i++ {
			whole[i] = canary
		}
		return whole[:len(prefix)], input, whole
	}
}

func sameArray(a, b []byte) bool {
	if cap(a) == 0 || cap(b) == 0 {
		return false
	}
	return &a[:1][0] == &b[:1][0]
}

// canariesOK: the bytes of the original dst array beyond `used` are still canaries.
func canariesOK(whole []byte, used int) bool {
	for i := used; i < len(whole); i++ {
		if whole[i] != canary {
			return false
		}
	}
	return true
}

func init() {
	register("gcm.aead", func(ctx *Ctx, c Cmd, ev Ev) {
		key := c.bytes("key")
		a, kind, err := newAEAD(key, c.num("noncesize"), c.num("tagsize"), c.str("path"))
		ev["err"] = errStr(err)
		ev["kind"] = kind
		// served by the standard library's generic mode?  (by the package of the dynamic type, not its name)
		ev["stdlib_mode"] = strings.HasPrefix(kind, "*cipher.")
		ev["asm_available"] = sm4.VerifCanDoAsm()
		ev["key_after"] = B(key)
		if err == nil {
			ev["ns"], ev["ov"] = a.NonceSize(), a.Overhead()
			ctx.objs[c.str("h")] = &aeadObj{a}
		}
	})
	register("gcm.seal", func(ctx *Ctx, c Cmd, ev Ev) {
		a := ctx.objs[c.str("h")].(*aeadObj).aead
		nonce, aad, pt := c.bytes("nonce"), c.bytes("aad"), c.bytes("pt")
		if c.boolean("packed_in") { // inputs carved from one buffer, spare capacity behind each
			pk := packed(true, nonce, aad, pt)
			nonce, aad, pt = pk[0], pk[1], pk[2]
		}
		hugeNonce := c.has("nonce_zeros")
		if hugeNonce { // a huge all-zero nonce (never logged byte by byte)
			nonce = make([]byte, c.num("nonce_zeros"))
		}
		huge := c.has("aad_zeros")
		if huge { // a huge all-zero additional data string (never logged byte by byte)
			aad = make([]byte, c.num("aad_zeros"))
		}
		nonceLog := func(copyIt bool) B {
			if hugeNonce {
				return B(nil)
			}
			if copyIt {
				return B(append([]byte(nil), nonce...))
			}
			return B(nonce)
		}
		aadLog := func(copyIt bool) B {
			if huge {
				return B(nil)
			}
			if copyIt {
				return B(append([]byte(nil), aad...))
			}
			return B(aad)
		}
		dst, in, whole := layout(c, pt)
		inplace := c.str("alias") == "inplace"
		ev["out"] = B(nil)
		ev["out2"] = B(nil)
		snapped := false
		defer func() {
			if snapped {
				return
			}
			ev["nonce_after"], ev["aad_after"] = nonceLog(false), aadLog(false)
			if inplace {
				ev["in_after"] = B(pt)
			} else {
				ev["in_after"] = B(in)
			}
		}()
		out := a.Seal(dst, nonce, in, aad)
		ev["out"] = B(out)
		snap := func() {
			ev["nonce_after"], ev["aad_after"] = nonceLog(true), aadLog(true)
			if inplace {
				ev["in_after"] = B(append([]byte(nil), pt...))
			} else {
				ev["in_after"] = B(append([]byte(nil), in...))
			}
		}
		snap()
		snapped = true
		ev["same_array"] = sameArray(out, whole)
		used := len(out)
		if !sameArray(out, whole) {
			used = len(dst)
			if inplace {
				used = len(in)
			}
		}
		ev["canary_ok"] = canariesOK(whole, used)
		if c.boolean("repeat") && !inplace {
			out2 := a.Seal(dst, nonce, in, aad)
			ev["out2"] = B(out2)
		}
	})
	register("gcm.open", func(ctx *Ctx, c Cmd, ev Ev) {
		a := ctx.objs[c.str("h")].(*aeadObj).aead
		nonce, aad, ct := c.bytes("nonce"), c.bytes("aad"), c.bytes("ct")
		if c.boolean("packed_in") {
			pk := packed(true, nonce, aad, ct)
			nonce, aad, ct = pk[0], pk[1], pk[2]
		}
		dst, in, whole := layout(c, ct)
		inplace := c.str("alias") == "inplace"
		ev["out"], ev["out2"] = B(nil), B(nil)
		ev["err"], ev["err2"] = "unset", "unset"
		ev["nil_on_err"], ev["nil_on_err2"] = true, true
		ev["spill"], ev["spill_clean"] = B(nil), true
		ev["prefix_after"] = B(c.bytes("prefix"))
		snapped := false
		defer func() {
			if snapped {
				return
			}
			ev["nonce_after"], ev["aad_after"] = B(nonce), B(aad)
			if inplace {
				ev["in_after"] = B(ct)
			} else {
				ev["in_after"] = B(in)
			}
		}()
		if c.boolean("dst_is_aad") { // the record idiom: header = additional data = dst, output goes behind it
			dst = whole[:len(c.bytes("prefix"))]
			aad = dst
		}
		out, err := a.Open(dst, nonce, in, aad)
		ev["out"] = B(out)
		if !inplace && whole != nil { // the bytes the caller already had in dst, after the call
			ev["prefix_after"] = B(append([]byte(nil), whole[:len(c.bytes("prefix"))]...))
		}
		ev["nonce_after"], ev["aad_after"] = B(append([]byte(nil), nonce...)), B(append([]byte(nil), aad...))
		if inplace {
			ev["in_after"] = B(append([]byte(nil), ct...))
		} else {
			ev["in_after"] = B(append([]byte(nil), in...))
		}
		snapped = true
		ev["err"] = errStr(err)
		ev["nil_on_err"] = err == nil || len(out) == 0 // "no plaintext": nothing handed back (nil or empty)
		ev["same_array"] = sameArray(out, whole)
		used := len(out)
		if err != nil || !sameArray(out, whole) {
			used = len(dst)
			if inplace {
				used = len(in)
			}
		}
		ev["canary_ok"] = canariesOK(whole, used)
		// on a refused message: the bytes left where the plaintext would have gone (judged by TLC)
		if body := len(ct) - a.Overhead(); err != nil && body > 0 {
			var region []byte
			clean := true
			if inplace {
				region = append([]byte(nil), ct[:body]...)
				orig := c.bytes("ct")
				for i := range region {
					clean = clean && region[i] == orig[i]
				}
			} else if len(whole)-len(dst) >= body {
				region = append([]byte(nil), whole[len(dst):len(dst)+body]...)
				allCanary, allZero := true, true
				for _, b := range region {
					allCanary = allCanary && b == canary
					allZero = allZero && b == 0
				}
				clean = allCanary || allZero
			}
			ev["spill"], ev["spill_clean"] = B(region), clean
		}
		if c.boolean("repeat") && !inplace {
			out2, err2 := a.Open(dst, nonce, in, aad)
			ev["out2"] = B(out2)
			ev["err2"] = errStr(err2)
			ev["nil_on_err2"] = err2 == nil || len(out2) == 0
		}
	})
}
