package main

import (
	"hash"

	"github.com/bilibili/smgo/sm3"
)

func words(h [8]uint32) []int {
	out := make([]int, 0, 16)
	for _, w := range h {
		out = append(out, int(w>>16), int(w&0xffff))
	}
	return out
}

func sm3Proj(ev Ev, h hash.Hash) {
	hh, x, nx, l := sm3.VerifState(h)
	ev["st_h"] = words(hh)
	ev["st_x"] = B(x)
	ev["st_nx"] = nx
	ev["st_len"] = int(l)
}

// dstWithCap builds a slice of the given contents whose capacity exceeds its length by
// spare bytes; the spare bytes are filled with the canary 0xA5.
func dstWithCap(content []byte, spare int) []byte {
	if content == nil && spare == 0 {
		return nil
	}
	buf := make([]byte, len(content)+spare)
	copy(buf, content)
	for i := len(content); i < len(buf); i++ {
		buf[i] = 0xA5
	}
	return buf[:len(content)]
}

func init() {
	register("sm3.new", func(ctx *Ctx, c Cmd, ev Ev) {
		h := sm3.New()
		ctx.objs[c.str("h")] = h
		sm3Proj(ev, h)
	})
	// sm3.inject {h, v: 16 half-words, x: buffered bytes, len}: place the object in an arbitrary state
	register("sm3.inject", func(ctx *Ctx, c Cmd, ev Ev) {
		h := ctx.objs[c.str("h")].(hash.Hash)
		v := c.ints("v")
		var hh [8]uint32
		for i := range hh {
			hh[i] = uint32(v[2*i])<<16 | uint32(v[2*i+1])
		}
		sm3.VerifSetState(h, hh, c.bytes("x"), uint64(c.num("len")))
		sm3Proj(ev, h)
	})
	register("sm3.reset", func(ctx *Ctx, c Cmd, ev Ev) {
		h := ctx.objs[c.str("h")].(hash.Hash)
		h.Reset()
		sm3Proj(ev, h)
	})
	register("sm3.write", func(ctx *Ctx, c Cmd, ev Ev) {
		h := ctx.objs[c.str("h")].(hash.Hash)
		data := c.bytes("data")
		keep := append([]byte(nil), data...)
		n, err := h.Write(data)
		ev["n"] = n
		ev["err"] = errStr(err)
		ev["data_after"] = B(data)
		_ = keep
		sm3Proj(ev, h)
	})
	register("sm3.sum", func(ctx *Ctx, c Cmd, ev Ev) {
		h := ctx.objs[c.str("h")].(hash.Hash)
		in := dstWithCap(c.bytes("in"), c.num("spare"))
		out := h.Sum(in)
		ev["out"] = B(out)
		// append contract: does the result share in's backing array?
		same := false
		if len(in) > 0 && len(out) > 0 {
			same = &in[0] == &out[0]
		} else if cap(in) > 0 && cap(out) > 0 {
			same = &in[:1][0] == &out[:1][0]
		}
		ev["same_array"] = same
		ev["out_cap_ge"] = cap(out) >= len(out)
		sm3Proj(ev, h)
	})
	register("sm3.sumsm3", func(ctx *Ctx, c Cmd, ev Ev) {
		data := c.bytes("data")
		out := sm3.SumSM3(data)
		ev["out"] = B(out[:])
		ev["data_after"] = B(data)
	})
	register("sm3.sizes", func(ctx *Ctx, c Cmd, ev Ev) {
		h := ctx.objs[c.str("h")].(hash.Hash)
		ev["size"] = h.Size()
		ev["blocksize"] = h.BlockSize()
	})
}
