// Command drv executes scenario commands against the real bilibili/SMGo code and records
// one ndjson event per call (arguments, results, panics, projected state).
//
// It is an executor only: which inputs are interesting is decided by the generators
// (vlib/gen_*.py) and by the TLA+ models; what the results should be is decided by TLC
// evaluating the specification on the recorded events.  Nothing in here judges a result.
package main

import (
	"bufio"
	"encoding/json"
	"fmt"
	"os"
	"runtime/debug"
	"sort"
	"strings"
	"time"
)

var cmdTimeout = 1500 * time.Second

// B is a byte string that travels as a JSON array of integers (TLC cannot index strings).
type B []byte

func (b B) MarshalJSON() ([]byte, error) {
	var sb strings.Builder
	sb.Grow(len(b)*4 + 2)
	sb.WriteByte('[')
	for i, v := range b {
		if i > 0 {
			sb.WriteByte(',')
		}
		fmt.Fprintf(&sb, "%d", v)
	}
	sb.WriteByte(']')
	return []byte(sb.String()), nil
}

type Cmd map[string]interface{}
type Ev map[string]interface{}

func (c Cmd) has(k string) bool { _, ok := c[k]; return ok }

func (c Cmd) str(k string) string {
	if v, ok := c[k].(string); ok {
		return v
	}
	return ""
}

func (c Cmd) num(k string) int {
	if v, ok := c[k].(float64); ok {
		return int(v)
	}
	return 0
}

func (c Cmd) boolean(k string) bool {
	if v, ok := c[k].(bool); ok {
		return v
	}
	return false
}

// bytes returns nil when the key is absent or JSON null, else a fresh slice.
func (c Cmd) bytes(k string) []byte {
	v, ok := c[k].([]interface{})
	if !ok {
		return nil
	}
	out := make([]byte, len(v))
	for i, e := range v {
		out[i] = byte(e.(float64))
	}
	return out
}

func (c Cmd) ints(k string) []int {
	v, ok := c[k].([]interface{})
	if !ok {
		return nil
	}
	out := make([]int, len(v))
	for i, e := range v {
		out[i] = int(e.(float64))
	}
	return out
}

func (c Cmd) list(k string) []interface{} {
	v, _ := c[k].([]interface{})
	return v
}

// Ctx is the per-scenario state of the executor (object handles).
type Ctx struct {
	objs map[string]interface{}
}

type opFunc func(ctx *Ctx, c Cmd, ev Ev)

var ops = map[string]opFunc{}

func register(name string, f opFunc) { ops[name] = f }

func errStr(err error) string {
	if err == nil {
		return ""
	}
	return err.Error()
}

func runOne(ctx *Ctx, c Cmd) (ev Ev) {
	ev = Ev{}
	for k, v := range c {
		ev[k] = v
	}
	ev["panic"] = ""
	ev["fault"] = false
	op := c.str("op")
	if op == "scenario" {
		ctx.objs = map[string]interface{}{}
		return ev
	}
	f, ok := ops[op]
	if !ok {
		fmt.Fprintf(os.Stderr, "drv: unknown op %q\n", op)
		os.Exit(3)
	}
	defer func() {
		if r := recover(); r != nil {
			msg := fmt.Sprint(r)
			ev["panic"] = msg
			// a memory fault turned into a panic by debug.SetPanicOnFault (as opposed to a
			// deliberate or bounds-check panic)
			ev["fault"] = strings.Contains(msg, "fault address") || strings.Contains(msg, "invalid memory address")
		}
	}()
	f(ctx, c, ev)
	return ev
}

func main() {
	if len(os.Args) < 2 {
		fmt.Fprintln(os.Stderr, "usage: drv exec <commands.ndjson> <events.ndjson> | drv ops | drv <special> ...")
		os.Exit(3)
	}
	switch os.Args[1] {
	case "ops":
		names := make([]string, 0, len(ops))
		for k := range ops {
			names = append(names, k)
		}
		sort.Strings(names)
		fmt.Println(strings.Join(names, "\n"))
	case "exec":
		debug.SetPanicOnFault(true)
		if v := os.Getenv("DRV_CMD_TIMEOUT"); v != "" {
			if d, err := time.ParseDuration(v); err == nil {
				cmdTimeout = d
			}
		}
		in, err := os.Open(os.Args[2])
		if err != nil {
			fmt.Fprintln(os.Stderr, err)
			os.Exit(3)
		}
		out, err := os.Create(os.Args[3])
		if err != nil {
			fmt.Fprintln(os.Stderr, err)
			os.Exit(3)
		}
		w := bufio.NewWriterSize(out, 1<<20)
		sc := bufio.NewScanner(in)
		sc.Buffer(make([]byte, 1<<20), 1<<28)
		ctx := &Ctx{objs: map[string]interface{}{}}
		n := 0
		for sc.Scan() {
			line := sc.Bytes()
			if len(line) == 0 {
				continue
			}
			var c Cmd
			if err := json.Unmarshal(line, &c); err != nil {
				fmt.Fprintln(os.Stderr, "drv: bad command:", err)
				os.Exit(3)
			}
			// watchdog: a call that does not return is reported by exit code 4 (the events written so far are
			// complete, so the caller knows which command it was) instead of blocking the whole run
			done := make(chan struct{})
			go func(i int) {
				select {
				case <-done:
				case <-time.After(cmdTimeout):
					w.Flush()
					fmt.Fprintf(os.Stderr, "drv: command %d did not return within %s\n", i, cmdTimeout)
					os.Exit(4)
				}
			}(n)
			ev := runOne(ctx, c)
			close(done)
			enc, err := json.Marshal(ev)
			if err != nil {
				fmt.Fprintln(os.Stderr, "drv: marshal:", err)
				os.Exit(3)
			}
			w.Write(enc)
			w.WriteByte('\n')
			w.Flush() // every event reaches the file before the next call starts (a crash loses nothing)
			n++
		}
		w.Flush()
		out.Close()
		fmt.Fprintf(os.Stderr, "drv: executed %d commands\n", n)
	default:
		if f, ok := specials[os.Args[1]]; ok {
			f(os.Args[2:])
			return
		}
		fmt.Fprintf(os.Stderr, "drv: unknown sub-command %q\n", os.Args[1])
		os.Exit(3)
	}
}

var specials = map[string]func(args []string){}

func jsonBytes(v interface{}) ([]byte, error) { return json.Marshal(v) }
