package main

import (
	"fmt"

	"github.com/bilibili/smgo/sm2/internal"
	"github.com/bilibili/smgo/sm2/internal/fiat"
)

func mustP(b []byte) *fiat.SM2Element {
	e, err := new(fiat.SM2Element).SetBytes(b)
	if err != nil {
		panic("harness: non-canonical field input: " + err.Error())
	}
	return e
}

func mustN(b []byte) *fiat.SM2ScalarElement {
	e, err := new(fiat.SM2ScalarElement).SetBytes(b)
	if err != nil {
		panic("harness: non-canonical scalar input: " + err.Error())
	}
	return e
}

func triple(c Cmd, k string) *internal.SM2Point {
	l := c.list(k)
	if len(l) != 3 {
		panic("harness: point needs three coordinates")
	}
	cs := make([]*fiat.SM2Element, 3)
	for i := range cs {
		raw := l[i].([]interface{})
		b := make([]byte, len(raw))
		for j, v := range raw {
			b[j] = byte(v.(float64))
		}
		cs[i] = mustP(b)
	}
	return internal.VerifPoint(cs[0], cs[1], cs[2])
}

func tripleOut(p *internal.SM2Point) []B {
	x, y, z := p.VerifXYZ()
	return []B{B(x.Bytes()), B(y.Bytes()), B(z.Bytes())}
}

func init() {
	// ---- field arithmetic (mod p and mod n)
	register("fiat.op", func(ctx *Ctx, c Cmd, ev Ev) {
		fn, alias := c.str("fn"), c.str("alias")
		a, b := c.bytes("a"), c.bytes("b")
		ev["out"] = B(nil)
		if c.str("field") == "p" {
			x, y := mustP(a), new(fiat.SM2Element)
			if b != nil {
				y = mustP(b)
			}
			r := new(fiat.SM2Element).SetRaw([4]uint64{0xdeadbeef, 1, 2, 3}) // receiver holds garbage
			switch alias {
			case "ra":
				r = x
			case "rb":
				r = y
			case "rab":
				r, y = x, x
			case "ab":
				y = x
			}
			switch fn {
			case "add":
				r.Add(x, y)
			case "sub":
				r.Sub(x, y)
			case "mul":
				r.Mul(x, y)
			case "square":
				r.Square(x)
			case "opp":
				r.Opp(x)
			case "invert":
				r.Invert(x)
			case "divstepinvert":
				r.VerifDivstepInvert(x)
			case "set":
				r.Set(x)
			case "select":
				r.Select(x, y, c.num("cond"))
			case "one":
				r.One()
			default:
				panic("harness: fn")
			}
			ev["out"] = B(r.Bytes())
			ev["big"] = B(r.ToBigInt().Bytes())
			ev["raw"] = rawBE(r.GetRaw())
		} else {
			x, y := mustN(a), new(fiat.SM2ScalarElement)
			if b != nil {
				y = mustN(b)
			}
			r := new(fiat.SM2ScalarElement)
			switch alias {
			case "ra":
				r = x
			case "rb":
				r = y
			case "rab":
				r, y = x, x
			case "ab":
				y = x
			}
			switch fn {
			case "add":
				r.Add(x, y)
			case "sub":
				r.Sub(x, y)
			case "mul":
				r.Mul(x, y)
			case "square":
				r.Square(x)
			case "invert":
				r.Invert(x)
			case "opp":
				r.VerifOpp(x)
			case "set":
				r.Set(x)
			case "select":
				r.Select(x, y, c.num("cond"))
			case "one":
				r.One()
			default:
				panic("harness: fn")
			}
			ev["out"] = B(r.Bytes())
			ev["big"] = B(r.ToBigInt().Bytes())
			raw := r.VerifRaw()
			ev["raw"] = rawBE(&raw)
		}
	})
	// fiat.nonzero {limbs: 4 x 4 half-words...}: the generated nonzero tests on raw limbs (given as 32 bytes, big endian)
	register("fiat.nonzero", func(ctx *Ctx, c Cmd, ev Ev) {
		v := c.bytes("v")
		var raw [4]uint64
		for i := 0; i < 4; i++ {
			for j := 0; j < 8; j++ {
				raw[3-i] = raw[3-i]<<8 | uint64(v[8*i+j])
			}
		}
		ev["p_nz"] = fiat.VerifNonzero(raw) != 0
		ev["n_nz"] = fiat.VerifScalarNonzero(raw) != 0
	})
	register("fiat.pred", func(ctx *Ctx, c Cmd, ev Ev) {
		a, b := c.bytes("a"), c.bytes("b")
		if c.str("field") == "p" {
			ev["iszero"] = mustP(a).IsZero()
			ev["equal"] = mustP(a).Equal(mustP(b))
		} else {
			ev["iszero"] = mustN(a).IsZero()
			ev["equal"] = mustN(a).Equal(mustN(b))
		}
	})
	register("fiat.setbytes", func(ctx *Ctx, c Cmd, ev Ev) {
		v := c.bytes("v")
		if v == nil {
			v = []byte{}
		}
		ev["out"], ev["err"] = B(nil), "unset"
		before := c.bytes("recv")
		if c.str("field") == "p" {
			r := mustP(before)
			res, err := r.SetBytes(v)
			ev["err"] = errStr(err)
			ev["recv_after"] = B(r.Bytes())
			ev["ret_nil"] = res == nil
		} else {
			r := mustN(before)
			res, err := r.SetBytes(v)
			ev["err"] = errStr(err)
			ev["recv_after"] = B(r.Bytes())
			ev["ret_nil"] = res == nil
		}
		ev["v_after"] = B(v)
	})
	// MultiSelect over a table of canonical elements
	register("fiat.multiselect", func(ctx *Ctx, c Cmd, ev Ev) {
		tl := c.list("table")
		tab := make([]*[4]uint64, len(tl))
		for i, t := range tl {
			raw := t.([]interface{})
			b := make([]byte, len(raw))
			for j, v := range raw {
				b[j] = byte(v.(float64))
			}
			tab[i] = mustP(b).GetRaw()
		}
		fb := mustP(c.bytes("fallback"))
		r := new(fiat.SM2Element)
		r.MultiSelect(&tab, len(tab), byte(c.num("bits")), fb, c.num("fbcond"))
		ev["out"] = B(r.Bytes())
	})
	// ---- points
	register("pt.add", func(ctx *Ctx, c Cmd, ev Ev) {
		p1, p2 := triple(c, "p1"), triple(c, "p2")
		q := internal.NewSM2Point()
		switch c.str("alias") {
		case "q=p1":
			q = p1
		case "q=p2":
			q = p2
		case "all":
			q, p2 = p1, p1
		case "p1=p2":
			p2 = p1
		}
		res := q.Add(p1, p2)
		ev["out"] = tripleOut(q)
		ev["ret_is_q"] = res == q
		if c.str("alias") == "none" {
			ev["p1_after"], ev["p2_after"] = tripleOut(p1), tripleOut(p2)
		}
	})
	register("pt.double", func(ctx *Ctx, c Cmd, ev Ev) {
		p := triple(c, "p1")
		q := internal.NewSM2Point()
		if c.str("alias") == "q=p" {
			q = p
		}
		q.Double(p)
		ev["out"] = tripleOut(q)
	})
	register("pt.negate", func(ctx *Ctx, c Cmd, ev Ev) {
		p := triple(c, "p1")
		q := internal.NewSM2Point()
		if c.str("alias") == "q=p" {
			q = p
		}
		q.Negate(p)
		ev["out"] = tripleOut(q)
	})
	register("pt.select", func(ctx *Ctx, c Cmd, ev Ev) {
		p1, p2 := triple(c, "p1"), triple(c, "p2")
		q := internal.NewSM2Point().Select(p1, p2, c.num("cond"))
		ev["out"] = tripleOut(q)
	})
	register("pt.setbytes", func(ctx *Ctx, c Cmd, ev Ev) {
		b := c.bytes("b")
		if b == nil {
			b = []byte{}
		}
		recv := triple(c, "recv")
		ev["err"] = "unset"
		res, err := recv.SetBytes(b)
		ev["err"] = errStr(err)
		ev["ret_nil"] = res == nil
		ev["recv_after"] = tripleOut(recv)
		ev["b_after"] = B(b)
	})
	register("pt.bytes", func(ctx *Ctx, c Cmd, ev Ev) {
		p := triple(c, "p1")
		ev["safe"] = B(p.Bytes())
		ev["unsafe"] = B(p.Bytes_Unsafe())
		ev["ax_safe"] = B(p.GetAffineX().Bytes())
		ev["ax_unsafe"] = B(p.GetAffineX_Unsafe().Bytes())
		_, _, pz := p.VerifXYZ()
		ev["isinf"] = pz.IsZero() == 1
		ev["p_after"] = tripleOut(p)
	})
	// ---- point register machine: named SM2Point objects live across calls, so that operations which
	// make two points share storage (or leave an operand modified) show up at a LATER read.
	// After every operation the projective coordinates of ALL registers are recorded.
	regsOf := func(ctx *Ctx) map[string]*internal.SM2Point {
		m, ok := ctx.objs["ptm"].(map[string]*internal.SM2Point)
		if !ok {
			m = map[string]*internal.SM2Point{}
			ctx.objs["ptm"] = m
		}
		return m
	}
	dump := func(ctx *Ctx, ev Ev) {
		out := map[string][]B{}
		for k, p := range regsOf(ctx) {
			out[k] = tripleOut(p)
		}
		ev["regs"] = out
	}
	register("ptm.new", func(ctx *Ctx, c Cmd, ev Ev) {
		regsOf(ctx)[c.str("r")] = triple(c, "p1")
		dump(ctx, ev)
	})
	register("ptm.op", func(ctx *Ctx, c Cmd, ev Ev) {
		m := regsOf(ctx)
		if _, ok := m[c.str("dst")]; !ok {
			m[c.str("dst")] = internal.NewSM2Point()
		}
		dst, a := m[c.str("dst")], m[c.str("a")]
		defer dump(ctx, ev)
		switch c.str("fn") {
		case "add":
			dst.Add(a, m[c.str("b")])
		case "double":
			dst.Double(a)
		case "negate":
			dst.Negate(a)
		case "set":
			dst.Set(a)
		case "select":
			dst.Select(a, m[c.str("b")], c.num("cond"))
		default:
			panic("harness: fn")
		}
	})
	// ---- scalar multiplication
	register("sm.base", func(ctx *Ctx, c Cmd, ev Ev) {
		k := c.bytes("k")
		if k == nil {
			k = []byte{}
		}
		ev["out"], ev["err"] = B(nil), "unset"
		var p *internal.SM2Point
		var err error
		if c.num("scheme") < 0 {
			p, err = internal.ScalarBaseMult(k)
		} else {
			p, err = internal.VerifScalarBaseMult(c.num("scheme"), k)
		}
		ev["err"] = errStr(err)
		if err == nil {
			ev["out"] = B(p.Bytes())
			ev["proj"] = tripleOut(p)
		}
		ev["k_after"] = B(k)
	})
	register("sm.mult", func(ctx *Ctx, c Cmd, ev Ev) {
		p := triple(c, "p1")
		k := c.bytes("k")
		if k == nil {
			k = []byte{}
		}
		ev["out"], ev["err"] = B(nil), "unset"
		var r *internal.SM2Point
		var err error
		switch c.str("alg") { // the library keeps three variable-point multiplications
		case "daa":
			r, err = internal.VerifDoubleAndAdd(p, k)
		case "ladder":
			r, err = internal.VerifLadder(p, k)
		default:
			r, err = internal.ScalarMult(p, k)
		}
		ev["err"] = errStr(err)
		if err == nil {
			ev["out"] = B(r.Bytes())
		}
		ev["k_after"], ev["p_after"] = B(k), tripleOut(p)
	})
	register("sm.mixed", func(ctx *Ctx, c Cmd, ev Ev) {
		p := triple(c, "p1")
		g, s := c.bytes("g"), c.bytes("s")
		ev["out"], ev["err"] = B(nil), "unset"
		r, err := internal.ScalarMixedMult_Unsafe(g, p, s)
		ev["err"] = errStr(err)
		if err == nil {
			ev["out"] = B(r.Bytes_Unsafe())
		}
		ev["g_after"], ev["s_after"], ev["p_after"] = B(g), B(s), tripleOut(p)
	})
	register("sm.extract", func(ctx *Ctx, c Cmd, ev Ev) {
		k := c.bytes("k")
		ev["hi"] = int(internal.VerifExtractHigherBits(k, c.num("idx"), c.num("window"), c.num("step")))
		ev["lo"] = int(internal.VerifExtractLowerBits(k, c.num("count")))
	})
	_ = fmt.Sprint
}
