package main

// leakfilter cuts the window between the LeakBegin and LeakEnd markers out of a
// valgrind-lackey --trace-mem log, keeps the instructions (and their loads/stores) whose PC
// lies in a scoped symbol, renames Go-heap addresses by first touch, and emits one record
// (symbol, item count, SHA-256 of the items) per dynamic entry into a scoped function.
// Equal digests <=> equal segments; nothing here compares two runs - TLC does (T_Leak).

import (
	"bufio"
	"crypto/sha256"
	"encoding/hex"
	"encoding/json"
	"fmt"
	"os"
	"sort"
	"strconv"
	"strings"
)

type sym struct {
	addr, size uint64
	name       string
}

// wideScope (LEAK_SCOPE_WIDE=1): math/big is judged too.  Used for the primitives that have no business with
// big integers at all (comparison, range test, decoding, selection, inversions, the multiplications): a
// variable-time math/big routine applied to the secret there shows as a difference.  The signing entry point
// and the point encoding use math/big on public or already-blinded values and keep the narrow scope.
var wideScope = os.Getenv("LEAK_SCOPE_WIDE") == "1"

func scoped(name string) bool {
	if wideScope && strings.HasPrefix(name, "math/big.") {
		return true
	}
	return strings.HasPrefix(name, "github.com/bilibili/smgo/") || strings.HasPrefix(name, "crypto/subtle.") ||
		strings.HasPrefix(name, "math/bits.") || strings.HasPrefix(name, "main.") ||
		// variable-time library routines a change might apply to a secret (early-exit comparisons, searches)
		strings.HasPrefix(name, "bytes.") || strings.HasPrefix(name, "internal/bytealg.")
}

func init() {
	specials["leakfilter"] = func(args []string) {
		if len(args) < 3 {
			fail("usage: drv leakfilter <nm-file> <lackey-log> <item-limit>")
		}
		limit, _ := strconv.Atoi(args[2])
		var syms []sym
		nf, err := os.Open(args[0])
		if err != nil {
			fail("%v", err)
		}
		sc := bufio.NewScanner(nf)
		for sc.Scan() {
			f := strings.Fields(sc.Text())
			if len(f) < 4 || (f[2] != "T" && f[2] != "t") {
				continue
			}
			a, e1 := strconv.ParseUint(f[0], 16, 64)
			s, e2 := strconv.ParseUint(f[1], 10, 64)
			if e1 != nil || e2 != nil {
				continue
			}
			syms = append(syms, sym{a, s, f[3]})
		}
		nf.Close()
		sort.Slice(syms, func(i, j int) bool { return syms[i].addr < syms[j].addr })
		lookup := func(pc uint64) *sym {
			i := sort.Search(len(syms), func(i int) bool { return syms[i].addr > pc }) - 1
			if i >= 0 && pc < syms[i].addr+syms[i].size {
				return &syms[i]
			}
			return nil
		}
		var begin, end uint64
		for _, s := range syms {
			if s.name == "main.LeakBegin" {
				begin = s.addr
			}
			if s.name == "main.LeakEnd" {
				end = s.addr
			}
		}
		if begin == 0 || end == 0 {
			fail("marker symbols not found")
		}
		lf, err := os.Open(args[1])
		if err != nil {
			fail("%v", err)
		}
		rd := bufio.NewReaderSize(lf, 1<<22)
		type rec struct {
			Sym  string   `json:"sym"`
			N    int      `json:"n"`
			Hash string   `json:"h"`
			It   []string `json:"it,omitempty"` // items of verdict-returning functions (compared up to the verdict)
		}
		verdict := map[string]bool{"github.com/bilibili/smgo/utils.ConstantTimeCmp": true,
			"github.com/bilibili/smgo/sm2.TestPrivateKey": true, "crypto/subtle.ConstantTimeCompare": true, "main.main.func1": true}
		var segItems []string
		var recs []rec
		var items []string
		pages := map[uint64]int{}
		inwin, done, keep := false, false, false
		h := sha256.New()
		cur, n, total := "", 0, 0
		flush := func() {
			if cur != "" && n > 0 {
				r := rec{Sym: cur, N: n, Hash: hex.EncodeToString(h.Sum(nil)[:12])}
				if verdict[cur] {
					r.It = segItems
					r.Hash = "" // judged item by item
				}
				recs = append(recs, r)
			}
			segItems = nil
			h.Reset()
			n = 0
		}
		emit := func(s string) {
			h.Write([]byte(s))
			h.Write([]byte{'\n'})
			n++
			total++
			if total <= limit {
				items = append(items, s)
			}
			if verdict[cur] && len(segItems) < 20000 {
				segItems = append(segItems, s)
			}
		}
		for !done {
			line, err := rd.ReadString('\n')
			if err != nil {
				break
			}
			if len(line) < 4 || line[0] == '=' {
				continue
			}
			kind := line[0:2]
			body := strings.TrimSpace(line[2:])
			c := strings.IndexByte(body, ',')
			if c < 0 {
				continue
			}
			addr, e := strconv.ParseUint(body[:c], 16, 64)
			if e != nil {
				continue
			}
			if kind == "I " {
				if !inwin {
					if addr == begin {
						inwin = true
					}
					keep = false
					continue
				}
				if addr == end {
					done = true
					break
				}
				s := lookup(addr)
				keep = s != nil && scoped(s.name) && s.name != "main.LeakBegin"
				if !keep {
					continue
				}
				if addr == s.addr || cur == "" {
					flush()
					cur = s.name
				}
				emit("I" + strconv.FormatUint(addr, 16))
			} else if inwin && keep {
				var a string
				if addr >= 0xc000000000 {
					pg := addr >> 13
					idx, ok := pages[pg]
					if !ok {
						idx = len(pages)
						pages[pg] = idx
					}
					a = fmt.Sprintf("H%d+%x", idx, addr&0x1fff)
				} else {
					a = strconv.FormatUint(addr, 16)
				}
				emit(strings.TrimSpace(kind) + a + body[c:])
			}
		}
		flush()
		if !done {
			fail("end marker not reached (window incomplete)")
		}
		out := map[string]interface{}{"records": recs, "total": total}
		if total <= limit {
			out["items"] = items
		}
		enc, _ := json.Marshal(out)
		os.Stdout.Write(enc)
	}
}
