package main

import (
	"crypto/cipher"
	"syscall"
	"unsafe"

	"github.com/bilibili/smgo/sm3"
	"github.com/bilibili/smgo/sm4"
	"github.com/bilibili/smgo/utils"
)

// Guarded buffers: every buffer is placed in its own mapping so that it ENDS exactly at a
// PROT_NONE page ("end") or BEGINS right after one ("start").  An access outside the slice
// faults; with debug.SetPanicOnFault the fault becomes a panic that runOne records.
const pageSize = 4096

type guarded struct {
	maps [][]byte
}

func (g *guarded) alloc(n int, place string) []byte {
	pages := (n+pageSize-1)/pageSize + 1
	total := (pages + 2) * pageSize
	m, err := syscall.Mmap(-1, 0, total, syscall.PROT_READ|syscall.PROT_WRITE, syscall.MAP_ANON|syscall.MAP_PRIVATE)
	if err != nil {
		panic("harness: mmap: " + err.Error())
	}
	g.maps = append(g.maps, m)
	// first and last page inaccessible
	if err := syscall.Mprotect(m[:pageSize], syscall.PROT_NONE); err != nil {
		panic("harness: mprotect: " + err.Error())
	}
	if err := syscall.Mprotect(m[total-pageSize:], syscall.PROT_NONE); err != nil {
		panic("harness: mprotect: " + err.Error())
	}
	if place == "start" {
		return m[pageSize : pageSize+n : pageSize+n]
	}
	end := total - pageSize
	return m[end-n : end : end]
}

func (g *guarded) put(b []byte, place string) []byte {
	out := g.alloc(len(b), place)
	copy(out, b)
	return out
}

func (g *guarded) free() {
	for _, m := range g.maps {
		syscall.Munmap(m)
	}
	g.maps = nil
}

// cp copies a result out of guarded memory (the mappings are released before the event is encoded)
func cp(b []byte) B { return B(append([]byte(nil), b...)) }

func init() {
	// guard.aead {key, noncesize, tagsize, dir: seal|open, nonce, aad, text, place, dstmode: nil|exact}
	// Seal/Open through the public AEAD with every argument in guarded memory.
	register("guard.aead", func(ctx *Ctx, c Cmd, ev Ev) {
		g := &guarded{}
		defer g.free()
		a, _, err := newAEAD(c.bytes("key"), c.num("noncesize"), c.num("tagsize"), "asm")
		if err != nil {
			panic("harness: " + err.Error())
		}
		place := c.str("place")
		nonce, aad, text := g.put(c.bytes("nonce"), place), g.put(c.bytes("aad"), place), g.put(c.bytes("text"), place)
		ev["out"], ev["err"] = B(nil), "unset"
		var dst []byte
		need := len(text) + a.Overhead()
		if c.str("dir") == "open" {
			need = len(text) - a.Overhead()
		}
		if c.str("dstmode") == "exact" && need > 0 {
			dst = g.alloc(need, place)[:0]
		}
		if c.str("dir") == "seal" {
			out := a.Seal(dst, nonce, text, aad)
			ev["out"], ev["err"] = cp(out), ""
		} else {
			out, err := a.Open(dst, nonce, text, aad)
			ev["out"], ev["err"] = cp(out), errStr(err)
		}
	})
	// guard.block {key, asm, dec, srclen, dstlen, place}: Encrypt/Decrypt with src/dst of the given lengths
	register("guard.block", func(ctx *Ctx, c Cmd, ev Ev) {
		g := &guarded{}
		defer g.free()
		old := sm4.VerifCanDoAsm()
		sm4.VerifSetCanDoAsm(c.boolean("asm") && old)
		blk, err := sm4.NewCipher(c.bytes("key"))
		sm4.VerifSetCanDoAsm(old)
		if err != nil {
			panic("harness: " + err.Error())
		}
		place := c.str("place")
		src := g.put(c.bytes("src"), place)
		dst := g.alloc(c.num("dstlen"), place)
		ev["out"] = B(nil)
		if c.boolean("dec") {
			blk.Decrypt(dst, src)
		} else {
			blk.Encrypt(dst, src)
		}
		ev["out"] = cp(dst)
	})
	// guard.heapblock: short-buffer misuse on ordinary heap slices WITH spare capacity (the
	// portable path reslices within capacity): must panic, not silently read/write
	register("guard.heapblock", func(ctx *Ctx, c Cmd, ev Ev) {
		old := sm4.VerifCanDoAsm()
		sm4.VerifSetCanDoAsm(c.boolean("asm") && old)
		blk, err := sm4.NewCipher(c.bytes("key"))
		sm4.VerifSetCanDoAsm(old)
		if err != nil {
			panic("harness: " + err.Error())
		}
		sbuf := make([]byte, 64)
		dbuf := make([]byte, 64)
		for i := range dbuf {
			dbuf[i] = canary
		}
		copy(sbuf, c.bytes("src"))
		src, dst := sbuf[:len(c.bytes("src"))], dbuf[:c.num("dstlen")]
		ev["touched_beyond"] = false
		defer func() {
			for i := c.num("dstlen"); i < len(dbuf); i++ {
				if dbuf[i] != canary {
					ev["touched_beyond"] = true
				}
			}
		}()
		if c.boolean("dec") {
			blk.Decrypt(dst, src)
		} else {
			blk.Encrypt(dst, src)
		}
	})
	// guard.kernel {n, key, dec, place}: exported vector kernel with rk, src, dst in guarded memory
	register("guard.kernel", func(ctx *Ctx, c Cmd, ev Ev) {
		g := &guarded{}
		defer g.free()
		enc, dec := sm4.VerifExpandKey(c.bytes("key"))
		rk := &enc
		if c.boolean("dec") {
			rk = &dec
		}
		place := c.str("place")
		rkb := g.alloc(128, place)
		for i, w := range rk {
			rkb[4*i], rkb[4*i+1], rkb[4*i+2], rkb[4*i+3] = byte(w), byte(w>>8), byte(w>>16), byte(w>>24)
		}
		n := c.num("n")
		src := g.put(c.bytes("src"), place)
		dst := g.alloc(16*n, place)
		ev["out"] = B(nil)
		sm4.VerifKernel(n, (*uint32)(unsafe.Pointer(&rkb[0])), &dst[0], &src[0])
		ev["out"] = cp(dst)
	})
	// guard.expandkey {key, place}
	register("guard.expandkey", func(ctx *Ctx, c Cmd, ev Ev) {
		g := &guarded{}
		defer g.free()
		key := g.put(c.bytes("key"), c.str("place"))
		e, _ := sm4.VerifExpandKeyAsm(key)
		ev["enc"] = rkWords(e)
	})
	// guard.ghash {h, tag, data, place}
	register("guard.ghash", func(ctx *Ctx, c Cmd, ev Ev) {
		g := &guarded{}
		defer g.free()
		place := c.str("place")
		h, tag, data := g.put(c.bytes("h"), place), g.put(c.bytes("tag"), place), g.put(c.bytes("data"), place)
		sm4.VerifGHashBlocks(&h[0], &tag[0], &data[0], len(data)/16)
		ev["out"] = cp(tag)
	})
	// guard.sm3 {data, splits, place, inlen}: Write (in pieces) and Sum with the data, and the slice Sum appends to,
	// laid against an inaccessible page
	register("guard.sm3", func(ctx *Ctx, c Cmd, ev Ev) {
		g := &guarded{}
		defer g.free()
		place := c.str("place")
		data := g.put(c.bytes("data"), place)
		h := sm3.New()
		pos := 0
		for _, n := range c.ints("splits") {
			if pos+n > len(data) {
				n = len(data) - pos
			}
			h.Write(data[pos : pos+n])
			pos += n
		}
		h.Write(data[pos:])
		in := g.alloc(c.num("inlen"), "end") // no spare capacity: Sum has to grow it
		for i := range in {
			in[i] = byte(i)
		}
		out := h.Sum(in)
		ev["out"] = cp(out)
		one := sm3.SumSM3(data)
		ev["oneshot"] = cp(one[:])
		ev["data_after"] = cp(data)
	})
	// guard.cmp {a, b, place}: the comparison helper on guarded operands
	register("guard.cmp", func(ctx *Ctx, c Cmd, ev Ev) {
		g := &guarded{}
		defer g.free()
		a, b := g.put(c.bytes("a"), c.str("place")), g.put(c.bytes("b"), c.str("place"))
		ev["res"] = -99
		ev["res"] = utils.ConstantTimeCmp(a, b, len(a))
	})
	var _ cipher.Block
}
