package main

import (
	"bytes"
	"crypto/cipher"
	"crypto/sha256"
	"sync"

	"github.com/bilibili/smgo/sm2"
	"github.com/bilibili/smgo/sm3"
	"github.com/bilibili/smgo/sm4"
)

// conc.batch runs a list of calls from `workers` goroutines at once on SHARED objects and
// SHARED input buffers (one cipher.Block, one cipher.AEAD, one key set, one pool of byte
// slices referenced by index), each call writing only to private outputs.  It records every
// call's result; vlib/props/c17.py expands the calls into ordinary events that the sequential
// trace specifications judge ("every call returns what it would return when run alone"), and
// the pool and the package-level state are compared before/after.
//
//   call: {k: "seal"|"open"|"enc"|"dec"|"sign"|"verify"|"derive"|"sm3", a, b, c, d: pool indices}
func init() {
	register("conc.batch", func(ctx *Ctx, c Cmd, ev Ev) {
		pool := [][]byte{}
		for _, p := range c.list("pool") {
			raw := p.([]interface{})
			b := make([]byte, len(raw))
			for i, v := range raw {
				b[i] = byte(v.(float64))
			}
			pool = append(pool, b)
		}
		snap := func() []byte {
			h := sha256.New()
			for _, b := range pool {
				h.Write(b)
				h.Write([]byte{0xff})
			}
			return h.Sum(nil)
		}
		key := pool[c.num("key")]
		blk, err := sm4.NewCipher(key)
		if err != nil {
			panic("harness: " + err.Error())
		}
		aead, err := cipher.NewGCM(blk)
		if err != nil {
			panic("harness: " + err.Error())
		}
		calls := c.list("calls")
		results := make([]map[string]interface{}, len(calls))
		poolBefore, pkgBefore := snap(), append([]byte(nil), sm2.VerifPackageState()...)
		workers := c.num("workers")
		var wg sync.WaitGroup
		start := make(chan struct{})
		for w := 0; w < workers; w++ {
			wg.Add(1)
			go func(w int) {
				defer wg.Done()
				<-start
				for rep := 0; rep < c.num("reps"); rep++ {
					for i := w; i < len(calls); i += workers {
						call := Cmd(calls[i].(map[string]interface{}))
						res := map[string]interface{}{"panic": ""}
						func() {
							defer func() {
								if r := recover(); r != nil {
									res["panic"] = "panic"
								}
							}()
							A, Bi, Ci, Di := call.num("a"), call.num("b"), call.num("c"), call.num("d")
							switch call.str("k") {
							case "seal":
								res["out"] = B(aead.Seal(nil, pool[A], pool[Bi], pool[Ci]))
							case "open":
								out, err := aead.Open(nil, pool[A], pool[Bi], pool[Ci])
								res["out"], res["err"] = B(out), errStr(err)
							case "enc":
								dst := make([]byte, 16)
								blk.Encrypt(dst, pool[A])
								res["out"] = B(dst)
							case "dec":
								dst := make([]byte, 16)
								blk.Decrypt(dst, pool[A])
								res["out"] = B(dst)
							case "sign":
								r, s, err := sm2.SignHashed(bytes.NewReader(pool[Ci]), pool[A], pool[Bi])
								res["r"], res["s"], res["err"] = B(r), B(s), errStr(err)
							case "verify":
								ok, err := sm2.VerifyHashed(pool[A][:32], pool[A][32:], pool[Bi], pool[Ci], pool[Di])
								res["ok"], res["err"] = ok, errStr(err)
							case "signid": // a = priv, b = pub(64) || id, c = nonce stream, d = message
								pk := pool[Bi]
								r, s, err := sm2.Sign(pk[64:], pk[:32], pk[32:64], bytes.NewReader(pool[Ci]), pool[A], pool[Di])
								res["r"], res["s"], res["err"] = B(r), B(s), errStr(err)
							case "verifyid": // a = pub(64) || id, b = message, c = r, d = s
								pk := pool[A]
								ok, err := sm2.Verify(pk[64:], pk[:32], pk[32:64], pool[Bi], pool[Ci], pool[Di])
								res["ok"], res["err"] = ok, errStr(err)
							case "za": // a = pub(64) || id
								pk := pool[A]
								za, err := sm2.ZA(pk[64:], pk[:32], pk[32:64])
								res["out"], res["err"] = B(za), errStr(err)
							case "derive":
								x, y, err := sm2.DerivePublic(pool[A])
								res["x"], res["y"], res["err"] = B(x), B(y), errStr(err)
							case "sm3":
								h := sm3.New()
								h.Write(pool[A][:len(pool[A])/2])
								h.Write(pool[A][len(pool[A])/2:])
								res["out"] = B(h.Sum(nil))
							}
						}()
						if rep == 0 {
							results[i] = res
						} else {
							// later repetitions must reproduce the first answer
							a, _ := jsonBytes(res)
							b, _ := jsonBytes(results[i])
							if !bytes.Equal(a, b) {
								results[i]["unstable"] = true
							}
						}
					}
				}
			}(w)
		}
		close(start)
		wg.Wait()
		ev["results"] = results
		ev["pool_unchanged"] = bytes.Equal(poolBefore, snap())
		ev["pkg_unchanged"] = bytes.Equal(pkgBefore, sm2.VerifPackageState())
	})
}
