package main

// asmtrace: runs a target binary under ptrace, lets it run to the entry of one assembly symbol
// (software breakpoint), then single-steps and records every PC until control leaves the symbol
// (the routines are leaves).  Output: JSON list of PC offsets relative to the symbol start.
// The trace is compared with the instruction sequence of the TLA+ abstract machine (C09).

import (
	"encoding/json"
	"os"
	"os/exec"
	"runtime"
	"strconv"
	"syscall"
)

func init() {
	specials["asmtrace"] = func(args []string) {
		if len(args) < 4 {
			fail("usage: drv asmtrace <lo-hex> <size> <binary> args...")
		}
		lo, err := strconv.ParseUint(args[0], 16, 64)
		if err != nil {
			fail("bad address")
		}
		size, _ := strconv.ParseUint(args[1], 10, 64)
		hi := lo + size
		runtime.LockOSThread()
		cmd := exec.Command(args[2], args[3:]...)
		cmd.Env = append(os.Environ(), "GODEBUG=asyncpreemptoff=1", "GOMAXPROCS=1", "GOGC=off")
		cmd.Stderr = os.Stderr
		cmd.SysProcAttr = &syscall.SysProcAttr{Ptrace: true}
		if err := cmd.Start(); err != nil {
			fail("start: %v", err)
		}
		pid := cmd.Process.Pid
		var ws syscall.WaitStatus
		if _, err := syscall.Wait4(pid, &ws, 0, nil); err != nil || !ws.Stopped() {
			fail("initial stop missing")
		}
		// plant int3 at the symbol entry
		orig := make([]byte, 1)
		if _, err := syscall.PtracePeekText(pid, uintptr(lo), orig); err != nil {
			fail("peek: %v", err)
		}
		if _, err := syscall.PtracePokeText(pid, uintptr(lo), []byte{0xCC}); err != nil {
			fail("poke: %v", err)
		}
		sig := 0
		for {
			if err := syscall.PtraceCont(pid, sig); err != nil {
				fail("cont: %v", err)
			}
			if _, err := syscall.Wait4(pid, &ws, 0, nil); err != nil {
				fail("wait: %v", err)
			}
			if ws.Exited() || ws.Signaled() {
				// the call ran to its end without ever entering the routine: reported as an empty trace
				// with exit status 5 (the caller decides what that means)
				os.Stdout.Write([]byte("[]"))
				os.Exit(5)
			}
			if ws.Stopped() && ws.StopSignal() == syscall.SIGTRAP {
				var regs syscall.PtraceRegs
				syscall.PtraceGetRegs(pid, &regs)
				if regs.Rip == lo+1 {
					regs.Rip = lo
					syscall.PtracePokeText(pid, uintptr(lo), orig)
					syscall.PtraceSetRegs(pid, &regs)
					break
				}
				sig = 0
				continue
			}
			sig = int(ws.StopSignal()) // pass other signals on
		}
		var pcs []uint64
		for steps := 0; steps < 2000000; steps++ {
			var regs syscall.PtraceRegs
			if err := syscall.PtraceGetRegs(pid, &regs); err != nil {
				fail("getregs: %v", err)
			}
			if regs.Rip < lo || regs.Rip >= hi {
				break
			}
			pcs = append(pcs, regs.Rip-lo)
			if err := syscall.PtraceSingleStep(pid); err != nil {
				fail("step: %v", err)
			}
			if _, err := syscall.Wait4(pid, &ws, 0, nil); err != nil || !ws.Stopped() {
				fail("lost the target while stepping")
			}
			if ws.StopSignal() != syscall.SIGTRAP {
				fail("unexpected signal %v while stepping", ws.StopSignal())
			}
		}
		syscall.Kill(pid, syscall.SIGKILL)
		syscall.Wait4(pid, &ws, 0, nil)
		enc, _ := json.Marshal(pcs)
		os.Stdout.Write(enc)
	}
}
