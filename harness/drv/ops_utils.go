package main

import "github.com/bilibili/smgo/utils"

func init() {
	register("utils.cmp", func(ctx *Ctx, c Cmd, ev Ev) {
		a, b := c.bytes("a"), c.bytes("b")
		if a == nil {
			a = []byte{}
		}
		if b == nil {
			b = []byte{}
		}
		defer func() {
			ev["a_after"] = B(a)
			ev["b_after"] = B(b)
		}()
		ev["res"] = 99
		ev["res"] = utils.ConstantTimeCmp(a, b, c.num("l"))
	})
	register("utils.naf", func(ctx *Ctx, c Cmd, ev Ev) {
		s := c.bytes("s")
		n, w := c.num("n"), c.num("w")
		out := make([]int, n+c.num("extra")) // a zeroed workspace longer than n: the digits beyond n stay zero
		defer func() {
			ev["out"] = out
			ev["s_after"] = B(s)
		}()
		utils.DecomposeNAF(out, s, n, w)
	})
}
