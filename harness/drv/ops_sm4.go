package main

import (
	"crypto/cipher"
	"fmt"
	"unsafe"

	"github.com/bilibili/smgo/sm4"
)

func rkWords(rk [32]uint32) []int {
	out := make([]int, 0, 64)
	for _, w := range rk {
		out = append(out, int(w>>16), int(w&0xffff))
	}
	return out
}

type sm4Obj struct {
	blk cipher.Block
	key []byte // the very slice handed to NewCipher (to test that the cipher does not retain it)
}

func init() {
	// sm4.newcipher {h, key, asm}: constructs through the public API with the accelerated
	// path enabled/disabled.
	register("sm4.newcipher", func(ctx *Ctx, c Cmd, ev Ev) {
		key := c.bytes("key")
		if key == nil {
			key = []byte{}
		}
		// keyof: the caller reuses the very key slice it handed to an earlier NewCipher (handle
		// keyof), now holding this command's key bytes (next key loaded into the same buffer, or wiped)
		if c.has("keyof") {
			prev := ctx.objs[c.str("keyof")].(*sm4Obj)
			copy(prev.key, key)
			key = prev.key[:len(key)]
		}
		old := sm4.VerifCanDoAsm()
		sm4.VerifSetCanDoAsm(c.boolean("asm") && old)
		defer sm4.VerifSetCanDoAsm(old)
		ev["asm_available"] = old
		ev["err"] = "unset"
		blk, err := sm4.NewCipher(key)
		ev["err"] = errStr(err)
		ev["kind"] = fmt.Sprintf("%T", blk)
		// is it the portable implementation?  (compared by dynamic type with what the portable constructor
		// returns, so that renaming a type is not mistaken for a change of dispatch)
		ev["portable"] = false
		if err == nil && len(key) == 16 {
			if gen, e2 := sm4.VerifNewCipherGeneric(key); e2 == nil {
				ev["portable"] = fmt.Sprintf("%T", gen) == fmt.Sprintf("%T", blk)
			}
		}
		ev["key_after"] = B(key)
		if err == nil {
			ev["blocksize"] = blk.BlockSize()
			ctx.objs[c.str("h")] = &sm4Obj{blk, key}
		}
	})
	// overwrite the caller's key slice after construction
	register("sm4.scribblekey", func(ctx *Ctx, c Cmd, ev Ev) {
		o := ctx.objs[c.str("h")].(*sm4Obj)
		for i := range o.key {
			o.key[i] ^= 0x5a
		}
	})
	// sm4.crypt {h, dec, src, inplace}: one block through the public Block interface
	register("sm4.crypt", func(ctx *Ctx, c Cmd, ev Ev) {
		o := ctx.objs[c.str("h")].(*sm4Obj)
		src := c.bytes("src")
		var dst []byte
		if c.boolean("inplace") {
			dst = src
		} else {
			dst = make([]byte, len(src))
			if c.has("dstlen") { // a destination longer than one block: only the first block may be written
				dst = make([]byte, c.num("dstlen"))
			}
			for i := range dst {
				dst[i] = 0xA5
			}
		}
		defer func() {
			ev["out"] = B(dst)
			ev["src_after"] = B(src)
		}()
		if c.boolean("dec") {
			o.blk.Decrypt(dst, src)
		} else {
			o.blk.Encrypt(dst, src)
		}
	})
	// sm4.expandkey {key}: both key schedules, word for word
	register("sm4.expandkey", func(ctx *Ctx, c Cmd, ev Ev) {
		key := c.bytes("key")
		e1, d1 := sm4.VerifExpandKey(key)
		ev["go_enc"], ev["go_dec"] = rkWords(e1), rkWords(d1)
		if sm4.VerifCanDoAsm() {
			e2, d2 := sm4.VerifExpandKeyAsm(key)
			ev["asm_enc"], ev["asm_dec"] = rkWords(e2), rkWords(d2)
			ev["has_asm"] = true
		} else {
			ev["asm_enc"], ev["asm_dec"] = rkWords(e1), rkWords(d1)
			ev["has_asm"] = false
		}
		ev["key_after"] = B(key)
	})
	// sm4.kernel {kernel: go1|go2|asm1|asm2|asm4|asm8|asm16, key, dec, sched: go|asm, src, inplace}
	register("sm4.kernel", func(ctx *Ctx, c Cmd, ev Ev) {
		key, src := c.bytes("key"), c.bytes("src")
		var enc, dec [32]uint32
		if c.str("sched") == "asm" {
			enc, dec = sm4.VerifExpandKeyAsm(key)
		} else {
			enc, dec = sm4.VerifExpandKey(key)
		}
		rk := &enc
		if c.boolean("dec") {
			rk = &dec
		}
		var dst []byte
		if c.boolean("inplace") {
			dst = src
		} else {
			dst = make([]byte, len(src))
		}
		defer func() {
			ev["out"] = B(dst)
			ev["src_after"] = B(src)
		}()
		switch k := c.str("kernel"); k {
		case "go1":
			sm4.VerifCryptoBlock(rk, dst, src)
		case "go2":
			sm4.VerifCryptoBlockX2(rk, dst, src)
		default:
			n := map[string]int{"asm1": 1, "asm2": 2, "asm4": 4, "asm8": 8, "asm16": 16}[k]
			if len(src) != 16*n {
				panic("harness: wrong src size for kernel")
			}
			sm4.VerifKernel(n, &rk[0], (*byte)(unsafe.Pointer(&dst[0])), (*byte)(unsafe.Pointer(&src[0])))
		}
	})
}
