package main

// Extraction of straight-line programs from the repository's Go sources (binding B3):
// the two Fermat-inversion addition chains and the two complete-formula functions are
// turned into a list of three-address instructions with go/ast.  Anything outside the
// tiny grammar accepted here makes the extractor fail (exit 3): fail closed.

import (
	"encoding/json"
	"fmt"
	"go/ast"
	"go/parser"
	"go/token"
	"os"
	"regexp"
	"strconv"
	"strings"
)

type Ins struct {
	Op  string `json:"op"`
	Dst string `json:"dst"`
	A   string `json:"a"`
	B   string `json:"b"`
	N   int    `json:"n"` // repetition count (loops); 1 otherwise
}

// extractError: a source construct outside an extractor's grammar.  Each extraction is attempted on
// its own (see `attempt`): the one that cannot be done is reported with its reason, so that the check
// that needs it leaves out the extracted-program model and still runs everything else - refusing the
// whole run would turn a change of the code into "no verdict".
type extractError string

func fail(format string, a ...interface{}) {
	panic(extractError(fmt.Sprintf(format, a...)))
}

func attempt(f func() interface{}) (res interface{}) {
	defer func() {
		if r := recover(); r != nil {
			if e, ok := r.(extractError); ok {
				fmt.Fprintf(os.Stderr, "extract: %s\n", string(e))
				res = map[string]interface{}{"error": string(e), "prog": []Ins{}, "control_flow": []map[string]string{{"stmt": "unsupported", "what": string(e), "line": "0"}}}
				return
			}
			panic(r)
		}
	}()
	return f()
}

func findFunc(f *ast.File, name, recv string) *ast.FuncDecl {
	for _, d := range f.Decls {
		if fd, ok := d.(*ast.FuncDecl); ok && fd.Name.Name == name {
			if recv == "" && fd.Recv == nil {
				return fd
			}
			if recv != "" && fd.Recv != nil {
				return fd
			}
		}
	}
	return nil
}

func exprName(e ast.Expr) string {
	switch v := e.(type) {
	case *ast.Ident:
		return v.Name
	case *ast.SelectorExpr:
		return exprName(v.X) + "." + v.Sel.Name
	}
	fail("unsupported operand %T", e)
	return ""
}

// ---- addition chains: sm2Square(dst, a) / sm2Mul(dst, a, b), optionally inside
// `for s := lo; s < hi; s++ { ... }`
func chainCall(st ast.Stmt, n int, out *[]Ins) {
	es, ok := st.(*ast.ExprStmt)
	if !ok {
		fail("chain: unsupported statement %T", st)
	}
	call, ok := es.X.(*ast.CallExpr)
	if !ok {
		fail("chain: not a call")
	}
	fn := exprName(call.Fun)
	switch {
	case strings.HasSuffix(fn, "Square") && len(call.Args) == 2:
		*out = append(*out, Ins{"sq", exprName(call.Args[0]), exprName(call.Args[1]), "", n})
	case strings.HasSuffix(fn, "Mul") && len(call.Args) == 3:
		if n != 1 {
			fail("chain: multiplication inside a loop")
		}
		*out = append(*out, Ins{"mul", exprName(call.Args[0]), exprName(call.Args[1]), exprName(call.Args[2]), 1})
	default:
		fail("chain: unsupported call %s/%d", fn, len(call.Args))
	}
}

func intLit(e ast.Expr) int {
	bl, ok := e.(*ast.BasicLit)
	if !ok || bl.Kind != token.INT {
		fail("chain: loop bound is not an integer literal")
	}
	v, _ := strconv.Atoi(bl.Value)
	return v
}

func extractChain(path, fn string) map[string]interface{} {
	fset := token.NewFileSet()
	f, err := parser.ParseFile(fset, path, nil, parser.ParseComments)
	if err != nil {
		fail("%v", err)
	}
	fd := findFunc(f, fn, "")
	if fd == nil {
		fail("function %s not found in %s", fn, path)
	}
	var prog []Ins
	var temps []string
	control := []map[string]string{}
	odd := func(st ast.Stmt, what string) {
		// outside the straight-line grammar: reported, the program is then not used by the caller
		control = append(control, map[string]string{"stmt": fmt.Sprintf("%T", st), "what": what,
			"line": strconv.Itoa(fset.Position(st.Pos()).Line)})
	}
	for _, st := range fd.Body.List {
		switch v := st.(type) {
		case *ast.DeclStmt: // var ( t0 = new(...) ... )
			gd := v.Decl.(*ast.GenDecl)
			for _, sp := range gd.Specs {
				vs := sp.(*ast.ValueSpec)
				for _, nm := range vs.Names {
					temps = append(temps, nm.Name)
				}
			}
		case *ast.ExprStmt:
			chainCall(v, 1, &prog)
		case *ast.ForStmt:
			as, ok := v.Init.(*ast.AssignStmt)
			if !ok || len(as.Rhs) != 1 {
				odd(st, "loop init")
				continue
			}
			be, ok := v.Cond.(*ast.BinaryExpr)
			if !ok || be.Op != token.LSS {
				odd(st, "loop condition")
				continue
			}
			if _, ok := v.Post.(*ast.IncDecStmt); !ok {
				odd(st, "loop post statement")
				continue
			}
			if len(v.Body.List) != 1 {
				odd(st, "loop body")
				continue
			}
			if _, ok := v.Body.List[0].(*ast.ExprStmt); !ok {
				odd(st, "loop body")
				continue
			}
			lo := intLit(as.Rhs[0])
			hi := intLit(be.Y)
			chainCall(v.Body.List[0], hi-lo, &prog)
		default:
			odd(st, "statement")
		}
	}
	// declared operation counts from the header comment
	sq, mu := -1, -1
	re := regexp.MustCompile(`Operations: (\d+) squares (\d+) multiplies`)
	for _, cg := range f.Comments {
		if m := re.FindStringSubmatch(cg.Text()); m != nil {
			sq, _ = strconv.Atoi(m[1])
			mu, _ = strconv.Atoi(m[2])
		}
	}
	params := []string{}
	for _, p := range fd.Type.Params.List {
		for _, n := range p.Names {
			params = append(params, n.Name)
		}
	}
	return map[string]interface{}{"func": fn, "prog": prog, "temps": temps, "params": params,
		"declared_squares": sq, "declared_multiplies": mu, "control_flow": control}
}

// ---- complete formulas: `t := new(fiat.SM2Element).Op(a, b)`, `t.Op(a, b)`, `q.x.Set(x3)`, `return q`
func formulaCall(call *ast.CallExpr) (recv ast.Expr, op string, args []string) {
	sel, ok := call.Fun.(*ast.SelectorExpr)
	if !ok {
		fail("formula: unsupported call")
	}
	for _, a := range call.Args {
		args = append(args, exprName(a))
	}
	return sel.X, sel.Sel.Name, args
}

func extractFormula(path, fn string) map[string]interface{} {
	fset := token.NewFileSet()
	f, err := parser.ParseFile(fset, path, nil, 0)
	if err != nil {
		fail("%v", err)
	}
	fd := findFunc(f, fn, "q")
	if fd == nil {
		fail("method %s not found", fn)
	}
	var prog []Ins
	control := []map[string]string{}
	ops := map[string]string{"Mul": "mul", "Add": "add", "Sub": "sub", "Square": "sq", "Set": "set"}
	emit := func(dst, name string, args []string) {
		op, ok := ops[name]
		if !ok {
			fail("formula: unsupported method %s", name)
		}
		in := Ins{Op: op, Dst: dst, N: 1}
		if len(args) > 0 {
			in.A = args[0]
		}
		if len(args) > 1 {
			in.B = args[1]
		}
		if (op == "sq" || op == "set") != (len(args) == 1) {
			fail("formula: wrong arity for %s", name)
		}
		prog = append(prog, in)
	}
	for _, st := range fd.Body.List {
		switch v := st.(type) {
		case *ast.AssignStmt: // t := new(fiat.SM2Element).Op(a, b)
			if len(v.Lhs) != 1 || len(v.Rhs) != 1 || v.Tok != token.DEFINE {
				fail("formula: unsupported assignment")
			}
			call, ok := v.Rhs[0].(*ast.CallExpr)
			if !ok {
				fail("formula: assignment from non-call")
			}
			recv, name, args := formulaCall(call)
			nc, ok := recv.(*ast.CallExpr)
			if !ok || exprName(nc.Fun) != "new" {
				fail("formula: receiver of a defining call must be new(...)")
			}
			emit(exprName(v.Lhs[0]), name, args)
		case *ast.ExprStmt: // t.Op(a, b)
			call, ok := v.X.(*ast.CallExpr)
			if !ok {
				fail("formula: unsupported expression statement")
			}
			recv, name, args := formulaCall(call)
			emit(exprName(recv), name, args)
		case *ast.ReturnStmt:
		case *ast.IfStmt, *ast.ForStmt, *ast.RangeStmt, *ast.SwitchStmt:
			// not a straight-line formula any more: reported to the caller, which then does not use the
			// program (the recorded executions still judge the function)
			control = append(control, map[string]string{"stmt": fmt.Sprintf("%T", st), "line": strconv.Itoa(fset.Position(st.Pos()).Line)})
		default:
			fail("formula: unsupported statement %T", st)
		}
	}
	params := []string{}
	for _, p := range fd.Type.Params.List {
		for _, n := range p.Names {
			params = append(params, n.Name)
		}
	}
	return map[string]interface{}{"func": fn, "prog": prog, "params": params, "control_flow": control}
}

// scratchIsLocal reports, for a method of the GCM glue, whether the LAST argument of the call
// to the named assembly routine is the address of an element of a variable declared inside
// the method body (per-call scratch on the caller's stack) rather than of something reachable
// from the receiver or a package-level variable (shared between concurrent calls).
func scratchIsLocal(path, method, callee string) bool {
	fset := token.NewFileSet()
	f, err := parser.ParseFile(fset, path, nil, 0)
	if err != nil {
		fail("%v", err)
	}
	fd := findFunc(f, method, "g")
	if fd == nil {
		fail("method %s not found in %s", method, path)
	}
	locals := map[string]bool{}
	ast.Inspect(fd.Body, func(n ast.Node) bool {
		switch v := n.(type) {
		case *ast.DeclStmt:
			if gd, ok := v.Decl.(*ast.GenDecl); ok {
				for _, sp := range gd.Specs {
					if vs, ok := sp.(*ast.ValueSpec); ok {
						for _, nm := range vs.Names {
							locals[nm.Name] = true
						}
					}
				}
			}
		case *ast.AssignStmt:
			if v.Tok == token.DEFINE {
				for _, l := range v.Lhs {
					if id, ok := l.(*ast.Ident); ok {
						locals[id.Name] = true
					}
				}
			}
		}
		return true
	})
	found, local := false, true
	ast.Inspect(fd.Body, func(n ast.Node) bool {
		call, ok := n.(*ast.CallExpr)
		if !ok {
			return true
		}
		if id, ok := call.Fun.(*ast.Ident); !ok || id.Name != callee || len(call.Args) == 0 {
			return true
		}
		found = true
		arg := call.Args[len(call.Args)-1]
		// expect &X[...]
		un, ok := arg.(*ast.UnaryExpr)
		if !ok || un.Op != token.AND {
			local = false
			return true
		}
		ix, ok := un.X.(*ast.IndexExpr)
		if !ok {
			local = false
			return true
		}
		id, ok := ix.X.(*ast.Ident)
		if !ok || !locals[id.Name] {
			local = false
		}
		return true
	})
	if !found {
		fail("no call to %s in %s", callee, method)
	}
	return local
}

// pkgWrites lists, per package, the statements OUTSIDE init functions and variable initialisers
// that assign to (or call a method on, other than a known read-only one) a package-level
// variable: package-level state that is written while the library is in use is shared by all
// concurrent calls.  Functions that take a lock or go through sync.Once are assumed synchronised.
func rootIdent(e ast.Expr) *ast.Ident {
	for {
		switch v := e.(type) {
		case *ast.Ident:
			return v
		case *ast.SelectorExpr:
			e = v.X
		case *ast.IndexExpr:
			e = v.X
		case *ast.StarExpr:
			e = v.X
		case *ast.ParenExpr:
			e = v.X
		case *ast.SliceExpr:
			e = v.X
		default:
			return nil
		}
	}
}

var readOnlyMethods = map[string]bool{"Bytes": true, "Cmp": true, "Sign": true, "BitLen": true, "String": true, "Params": true,
	"IsZero": true, "Equal": true, "Supports": true, "Text": true, "Bit": true, "Int64": true, "Uint64": true, "IsInt64": true,
	"CmpAbs": true, "Bits": true, "FillBytes": true, "Error": true, "GetRaw": true, "ToBigInt": true, "Has": true,
	// methods of the synchronisation types themselves (sync.Pool, sync.Map, sync/atomic values, mutexes, Once, WaitGroup)
	"Get": true, "Put": true, "Load": true, "Store": true, "Swap": true, "CompareAndSwap": true, "LoadOrStore": true,
	"LoadAndDelete": true, "Delete": true, "Range": true, "Lock": true, "Unlock": true, "RLock": true, "RUnlock": true,
	"Do": true, "Wait": true, "Done": true, "TryLock": true}

func pkgWrites(repo string, dirs []string) []map[string]string {
	out := []map[string]string{}
	for _, dir := range dirs {
		fset := token.NewFileSet()
		pkgs, err := parser.ParseDir(fset, repo+"/"+dir, func(fi os.FileInfo) bool {
			n := fi.Name()
			return !strings.HasSuffix(n, "_test.go") && !strings.HasPrefix(n, "verif_") && n != "make_table.go"
		}, 0)
		if err != nil {
			fail("%v", err)
		}
		for _, pkg := range pkgs {
			globals := map[string]bool{}
			for _, f := range pkg.Files {
				for _, d := range f.Decls {
					if gd, ok := d.(*ast.GenDecl); ok && gd.Tok == token.VAR {
						for _, sp := range gd.Specs {
							for _, nm := range sp.(*ast.ValueSpec).Names {
								globals[nm.Name] = true
							}
						}
					}
				}
			}
			// functions handed to sync.Once.Do by name run at most once, synchronised
			onceFuncs := map[string]bool{}
			for _, f := range pkg.Files {
				ast.Inspect(f, func(n ast.Node) bool {
					if c, ok := n.(*ast.CallExpr); ok {
						if sel, ok := c.Fun.(*ast.SelectorExpr); ok && sel.Sel.Name == "Do" && len(c.Args) == 1 {
							if id, ok := c.Args[0].(*ast.Ident); ok {
								onceFuncs[id.Name] = true
							}
						}
					}
					return true
				})
			}
			for fname, f := range pkg.Files {
				if f.Name.Name == "main" {
					continue
				}
				for _, d := range f.Decls {
					fd, ok := d.(*ast.FuncDecl)
					if !ok || fd.Body == nil || (fd.Name.Name == "init" && fd.Recv == nil) || fd.Name.Name == "initPoints" ||
						(fd.Recv == nil && onceFuncs[fd.Name.Name]) {
						continue
					}
					locals := map[string]bool{}
					if fd.Recv != nil {
						for _, fl := range fd.Recv.List {
							for _, n := range fl.Names {
								locals[n.Name] = true
							}
						}
					}
					for _, fl := range fd.Type.Params.List {
						for _, n := range fl.Names {
							locals[n.Name] = true
						}
					}
					if fd.Type.Results != nil {
						for _, fl := range fd.Type.Results.List {
							for _, n := range fl.Names {
								locals[n.Name] = true
							}
						}
					}
					synced := false
					ast.Inspect(fd.Body, func(n ast.Node) bool {
						switch v := n.(type) {
						case *ast.AssignStmt:
							if v.Tok == token.DEFINE {
								for _, l := range v.Lhs {
									if id, ok := l.(*ast.Ident); ok {
										locals[id.Name] = true
									}
								}
							}
						case *ast.DeclStmt:
							if gd, ok := v.Decl.(*ast.GenDecl); ok {
								for _, sp := range gd.Specs {
									if vs, ok := sp.(*ast.ValueSpec); ok {
										for _, nm := range vs.Names {
											locals[nm.Name] = true
										}
									}
								}
							}
						case *ast.RangeStmt:
							for _, e := range []ast.Expr{v.Key, v.Value} {
								if id, ok := e.(*ast.Ident); ok && v.Tok == token.DEFINE {
									locals[id.Name] = true
								}
							}
						case *ast.CallExpr:
							if sel, ok := v.Fun.(*ast.SelectorExpr); ok && (sel.Sel.Name == "Lock" || sel.Sel.Name == "Do") {
								synced = true
							}
						}
						return true
					})
					if synced {
						continue
					}
					rec := func(name, how string, pos token.Pos) {
						out = append(out, map[string]string{"pkg": dir, "file": fname[len(repo)+1:], "func": fd.Name.Name,
							"var": name, "how": how, "line": strconv.Itoa(fset.Position(pos).Line)})
					}
					ast.Inspect(fd.Body, func(n ast.Node) bool {
						switch v := n.(type) {
						case *ast.AssignStmt:
							if v.Tok == token.DEFINE {
								return true
							}
							for _, l := range v.Lhs {
								if id := rootIdent(l); id != nil && globals[id.Name] && !locals[id.Name] {
									rec(id.Name, "assignment", v.Pos())
								}
							}
						case *ast.IncDecStmt:
							if id := rootIdent(v.X); id != nil && globals[id.Name] && !locals[id.Name] {
								rec(id.Name, "inc/dec", v.Pos())
							}
						case *ast.CallExpr:
							if sel, ok := v.Fun.(*ast.SelectorExpr); ok {
								if id, ok := sel.X.(*ast.Ident); ok && globals[id.Name] && !locals[id.Name] && !readOnlyMethods[sel.Sel.Name] {
									rec(id.Name, "method "+sel.Sel.Name, v.Pos())
								}
							}
							// `global[:0]` handed to a call (append, or a function that appends into its argument):
							// the idiom for re-using a buffer as a destination
							for _, a := range v.Args {
								if sl, ok := a.(*ast.SliceExpr); ok && sl.High != nil {
									if lit, ok := sl.High.(*ast.BasicLit); ok && lit.Value == "0" {
										if id := rootIdent(sl.X); id != nil && globals[id.Name] && !locals[id.Name] {
											rec(id.Name, "re-sliced to length 0 as a destination", v.Pos())
										}
									}
								}
							}
						case *ast.UnaryExpr:
							if v.Op == token.AND {
								if id := rootIdent(v.X); id != nil && globals[id.Name] && !locals[id.Name] {
									// the address of package state escapes into a call: only a hazard if the callee writes;
									// recorded separately, not counted as a write
									_ = id
								}
							}
						}
						return true
					})
				}
			}
		}
	}
	return out
}

// recvWrites lists the statements inside METHODS of the package's types that write through the
// receiver (assignment / inc-dec whose target is rooted at the receiver, copy or append into a
// receiver field): the cipher and AEAD objects are shared between goroutines, so after
// construction (plain functions, not methods) nothing may write to them.
func recvWrites(repo, dir string) []map[string]string {
	out := []map[string]string{}
	fset := token.NewFileSet()
	pkgs, err := parser.ParseDir(fset, repo+"/"+dir, func(fi os.FileInfo) bool {
		n := fi.Name()
		return !strings.HasSuffix(n, "_test.go") && !strings.HasPrefix(n, "verif_")
	}, 0)
	if err != nil {
		fail("%v", err)
	}
	for _, pkg := range pkgs {
		for fname, f := range pkg.Files {
			for _, d := range f.Decls {
				fd, ok := d.(*ast.FuncDecl)
				if !ok || fd.Body == nil || fd.Recv == nil || len(fd.Recv.List) == 0 || len(fd.Recv.List[0].Names) == 0 {
					continue
				}
				recv := fd.Recv.List[0].Names[0].Name
				tname := ""
				if st, ok := fd.Recv.List[0].Type.(*ast.StarExpr); ok {
					tname = exprName(st.X)
				} else {
					tname = exprName(fd.Recv.List[0].Type)
				}
				rec := func(how string, pos token.Pos) {
					out = append(out, map[string]string{"pkg": dir, "file": fname[len(repo)+1:], "type": tname, "func": fd.Name.Name,
						"how": how, "line": strconv.Itoa(fset.Position(pos).Line)})
				}
				// a method that takes a lock or goes through sync.Once is assumed synchronised (as in pkgWrites)
				synced := false
				ast.Inspect(fd.Body, func(n ast.Node) bool {
					if c, ok := n.(*ast.CallExpr); ok {
						if sel, ok := c.Fun.(*ast.SelectorExpr); ok && (sel.Sel.Name == "Lock" || sel.Sel.Name == "Do" || sel.Sel.Name == "RLock") {
							synced = true
						}
					}
					return true
				})
				if synced {
					continue
				}
				rooted := func(e ast.Expr) bool {
					id := rootIdent(e)
					if id == nil || id.Name != recv {
						return false
					}
					_, bare := e.(*ast.Ident) // `g = ...` rebinds the local receiver variable only
					return !bare
				}
				ast.Inspect(fd.Body, func(n ast.Node) bool {
					switch v := n.(type) {
					case *ast.AssignStmt:
						if v.Tok == token.DEFINE {
							return true
						}
						for _, l := range v.Lhs {
							if rooted(l) {
								rec("assignment", v.Pos())
							}
						}
					case *ast.IncDecStmt:
						if rooted(v.X) {
							rec("inc/dec", v.Pos())
						}
					case *ast.CallExpr:
						if id, ok := v.Fun.(*ast.Ident); ok && id.Name == "copy" && len(v.Args) > 0 {
							a := v.Args[0]
							if sl, ok := a.(*ast.SliceExpr); ok {
								a = sl.X
							}
							if rooted(a) {
								rec("copy into a receiver field", v.Pos())
							}
						}
					}
					return true
				})
			}
		}
	}
	return out
}

func init() {
	specials["extract"] = func(args []string) {
		if len(args) < 1 {
			fmt.Fprintln(os.Stderr, "usage: drv extract <repo>")
			os.Exit(3)
		}
		repo := args[0]
		out := map[string]interface{}{
			"field_chain": attempt(func() interface{} {
				return extractChain(repo+"/sm2/internal/fiat/addchain_sm2_64_field_inverse.go", "sm2FermatInvert_FiatAC")
			}),
			"scalar_chain": attempt(func() interface{} {
				return extractChain(repo+"/sm2/internal/fiat/addchain_sm2_64_scalar_inverse.go", "sm2ScalarFermatInvert_FiatAC")
			}),
			"add":    attempt(func() interface{} { return extractFormula(repo+"/sm2/internal/sm2_point.go", "Add") }),
			"double": attempt(func() interface{} { return extractFormula(repo+"/sm2/internal/sm2_point.go", "Double") }),
			"seal_scratch_local": attempt(func() interface{} { return scratchIsLocal(repo+"/sm4/sm4_gcm_amd64.go", "Seal", "sealAsm") }),
			"open_scratch_local": attempt(func() interface{} { return scratchIsLocal(repo+"/sm4/sm4_gcm_amd64.go", "Open", "openAsm") }),
			"package_writes":     pkgWrites(repo, []string{"sm2", "sm2/internal", "sm2/internal/fiat", "sm3", "sm4", "utils"}),
			"receiver_writes":    recvWrites(repo, "sm4"),
		}
		enc, _ := json.Marshal(out)
		os.Stdout.Write(enc)
	}
}
