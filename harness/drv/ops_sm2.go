package main

import (
	"errors"
	"io"
	"math/big"

	"github.com/bilibili/smgo/sm2"
)

// scriptedReader delivers a scripted sequence of Read results.  Each step is
// {d: bytes, err: "" | "EOF" | other}: a Read with room m gets min(m, len(d)) bytes; when the
// step's bytes are used up its error (if any) is returned together with the last bytes, and
// the step is consumed.  A step with no bytes and an error returns (0, err).
// After the script: (0, io.EOF).  Every call is logged as [asked, n, err].
type scriptedReader struct {
	steps []rstep
	log   [][]interface{}
	calls int // Read calls and bytes delivered (kept even when the per-call log is dropped for very long runs)
	total int
}

// reads: the per-call log, or nothing when there were too many calls to log (the totals are then in the event)
func (r *scriptedReader) reads(ev Ev) {
	ev["reads_total"], ev["reads_calls"] = r.total, r.calls
	if r.calls > 4096 {
		ev["reads"] = [][]interface{}{}
		return
	}
	ev["reads"] = r.log
}
type rstep struct {
	d   []byte
	err string
}

func mkErr(s string) error {
	switch s {
	case "":
		return nil
	case "EOF":
		return io.EOF
	}
	return errors.New(s)
}

func (r *scriptedReader) Read(p []byte) (int, error) {
	r.calls++
	if len(r.steps) == 0 {
		if r.calls <= 4097 {
			r.log = append(r.log, []interface{}{len(p), 0, "EOF"})
		}
		return 0, io.EOF
	}
	st := &r.steps[0]
	n := copy(p, st.d)
	r.total += n
	st.d = st.d[n:]
	var err error
	es := ""
	if len(st.d) == 0 {
		err = mkErr(st.err)
		es = st.err
		r.steps = r.steps[1:]
	}
	if r.calls <= 4097 {
		r.log = append(r.log, []interface{}{len(p), n, es})
	}
	return n, err
}

func newScripted(c Cmd) *scriptedReader {
	r := &scriptedReader{log: [][]interface{}{}}
	// run {d, n}: n copies of one candidate in front of the script (very long runs of rejected candidates)
	if rn, ok := c["run"].(map[string]interface{}); ok {
		m := Cmd(rn)
		for i := 0; i < m.num("n"); i++ {
			r.steps = append(r.steps, rstep{m.bytes("d"), ""})
		}
	}
	for _, s := range c.list("script") {
		m := Cmd(s.(map[string]interface{}))
		r.steps = append(r.steps, rstep{m.bytes("d"), m.str("err")})
	}
	return r
}

// packed lays the given byte strings out one after the other in ONE backing array (followed by
// 192 canary bytes) and returns them as sub-slices whose capacity extends over everything that
// follows - the shape of a parsed record or packet.  An implementation that appends to one of its
// inputs then overwrites the caller's neighbouring fields; the snapshots taken after the call show it.
func packed(on bool, parts ...[]byte) [][]byte {
	if !on {
		return parts
	}
	total := 192
	for _, p := range parts {
		total += len(p)
	}
	buf := make([]byte, total)
	for i := range buf {
		buf[i] = canary
	}
	out := make([][]byte, len(parts))
	off := 0
	for i, p := range parts {
		copy(buf[off:], p)
		out[i] = buf[off : off+len(p)]
		off += len(p)
	}
	return out
}

// idOf: the user id of a command; `id_zeros: n` stands for n zero bytes (ids far beyond the 16-bit ENTL limit are
// never logged byte by byte - the events carry the count)
func idOf(c Cmd) []byte {
	if c.has("id_zeros") {
		return make([]byte, c.num("id_zeros"))
	}
	return c.bytes("id")
}

func idLog(c Cmd, id []byte) B {
	if c.has("id_zeros") {
		return B(nil)
	}
	return B(id)
}

func init() {
	register("sm2.genkey", func(ctx *Ctx, c Cmd, ev Ev) {
		var rd io.Reader
		var sr *scriptedReader
		if !c.boolean("nilreader") {
			sr = newScripted(c)
			rd = sr
		}
		ev["priv"], ev["x"], ev["y"], ev["err"] = B(nil), B(nil), B(nil), "unset"
		defer func() {
			if sr != nil {
				sr.reads(ev)
			} else {
				ev["reads"], ev["reads_total"], ev["reads_calls"] = [][]interface{}{}, 0, 0
			}
		}()
		priv, x, y, err := sm2.GenerateKey(rd)
		ev["priv"], ev["x"], ev["y"], ev["err"] = B(priv), B(x), B(y), errStr(err)
		// the property speaks of "no public key": the (possibly partly filled) private buffer that
		// comes back with an error is recorded but not judged
		ev["nil_out"] = len(x) == 0 && len(y) == 0 // "no public key": nothing handed back (nil or empty)
		ev["priv_nil"] = priv == nil
	})
	register("sm2.sign", func(ctx *Ctx, c Cmd, ev Ev) {
		sr := newScripted(c)
		priv := c.bytes("priv")
		ev["r"], ev["s"], ev["err"] = B(nil), B(nil), "unset"
		var ins [][]byte
		defer func() {
			sr.reads(ev)
			ev["priv_after"] = B(priv)
			after := make([]B, len(ins))
			for i := range ins {
				after[i] = B(ins[i])
			}
			ev["ins_after"] = after
		}()
		var r, s []byte
		var err error
		if c.has("x1") { // substitute the x coordinate of [k]G (verification hook)
			xv := new(big.Int).SetBytes(c.bytes("x1"))
			sm2.VerifX1Hook = func(*big.Int) *big.Int { return new(big.Int).Set(xv) }
			defer func() { sm2.VerifX1Hook = nil }()
		}
		switch c.str("kind") {
		case "hashed":
			e := c.bytes("e")
			ins = [][]byte{e}
			r, s, err = sm2.SignHashed(sr, priv, e)
		case "za":
			pk := packed(c.boolean("packed"), c.bytes("za"), priv, c.bytes("msg"))
			za, msg := pk[0], pk[2]
			priv = pk[1]
			ins = [][]byte{za, msg}
			r, s, err = sm2.SignZa(sr, priv, za, msg)
		case "id":
			pk := packed(c.boolean("packed"), idOf(c), c.bytes("pubx"), c.bytes("puby"), c.bytes("msg"), priv)
			id, px, py, msg := pk[0], pk[1], pk[2], pk[3]
			priv = pk[4]
			ins = [][]byte{[]byte(idLog(c, id)), px, py, msg}
			r, s, err = sm2.Sign(id, px, py, sr, priv, msg)
		default:
			panic("harness: bad kind")
		}
		ev["r"], ev["s"], ev["err"] = B(r), B(s), errStr(err)
		ev["nil_out"] = len(r) == 0 && len(s) == 0 // "no signature": nothing handed back (nil or empty)
	})
	// sm2.signverify: derive the public key, sign, then verify the returned signature with
	// the matching entry point (C01).  One event carries all three results.
	register("sm2.signverify", func(ctx *Ctx, c Cmd, ev Ev) {
		sr := newScripted(c)
		priv := c.bytes("priv")
		ev["r"], ev["s"], ev["err"] = B(nil), B(nil), "unset"
		ev["pubx"], ev["puby"], ev["puberr"] = B(nil), B(nil), "unset"
		ev["vok"], ev["verr"], ev["stage"] = false, "unset", "derive"
		ev["vok2"], ev["sv_ins"], ev["sv_ins_after"] = false, []B{}, []B{}
		defer func() { sr.reads(ev) }()
		var pad [32]byte
		copy(pad[32-len(priv):], priv) // the signer accepts shorter encodings; DerivePublic wants 32 bytes
		px, py, err := sm2.DerivePublic(pad[:])
		ev["pubx"], ev["puby"], ev["puberr"] = B(px), B(py), errStr(err)
		if err != nil {
			return
		}
		ev["stage"] = "sign"
		var r, s []byte
		kind := c.str("kind")
		e, za, msg, id := c.bytes("e"), c.bytes("za"), c.bytes("msg"), c.bytes("id")
		if c.boolean("reuse") {
			// the caller keeps ONE buffer per argument across the calls of a scenario and refills it in place
			// (same lengths): anything the library remembered about the slice itself meets new contents
			refill := func(name string, v []byte) []byte {
				if old, ok := ctx.objs["buf:"+name].([]byte); ok && len(old) == len(v) && len(v) > 0 {
					copy(old, v)
					return old
				}
				ctx.objs["buf:"+name] = v
				return v
			}
			e, za, msg, id = refill("e", e), refill("za", za), refill("msg", msg), refill("id", id)
			px, py = refill("px", px), refill("py", py)
		}
		before := []B{B(cp(e)), B(cp(za)), B(cp(msg)), B(cp(id)), B(cp(priv))}
		ev["sv_ins"] = before
		defer func() { ev["sv_ins_after"] = []B{B(cp(e)), B(cp(za)), B(cp(msg)), B(cp(id)), B(cp(priv))} }()
		switch kind {
		case "hashed":
			r, s, err = sm2.SignHashed(sr, priv, e)
		case "za":
			r, s, err = sm2.SignZa(sr, priv, za, msg)
		case "id":
			r, s, err = sm2.Sign(id, px, py, sr, priv, msg)
		}
		ev["r"], ev["s"], ev["err"] = B(r), B(s), errStr(err)
		if err != nil {
			return
		}
		ev["stage"] = "verify"
		var ok bool
		switch kind {
		case "hashed":
			ok, err = sm2.VerifyHashed(px, py, e, r, s)
		case "za":
			ok, err = sm2.VerifyZa(px, py, za, msg, r, s)
		case "id":
			ok, err = sm2.Verify(id, px, py, msg, r, s)
		}
		ev["vok"], ev["verr"], ev["stage"] = ok, errStr(err), "verify2"
		// the same call again on the same buffers (a caller keeps its ZA / message / signature slices)
		ok2 := false
		switch kind {
		case "hashed":
			ok2, _ = sm2.VerifyHashed(px, py, e, r, s)
		case "za":
			ok2, _ = sm2.VerifyZa(px, py, za, msg, r, s)
		case "id":
			ok2, _ = sm2.Verify(id, px, py, msg, r, s)
		}
		ev["vok2"], ev["stage"] = ok2, "done"
	})
	register("sm2.verify", func(ctx *Ctx, c Cmd, ev Ev) {
		px, py, r, s := c.bytes("pubx"), c.bytes("puby"), c.bytes("r"), c.bytes("s")
		ev["ok"], ev["err"] = false, "unset"
		ins := [][]byte{px, py, r, s}
		defer func() {
			after := make([]B, len(ins))
			for i := range ins {
				after[i] = B(ins[i])
			}
			ev["ins_after"] = after
		}()
		var ok bool
		var err error
		switch c.str("kind") {
		case "hashed":
			e := c.bytes("e")
			ins = append(ins, e)
			ok, err = sm2.VerifyHashed(px, py, e, r, s)
		case "za":
			pk := packed(c.boolean("packed"), c.bytes("za"), r, s, px, py, c.bytes("msg"))
			za, msg := pk[0], pk[5]
			r, s, px, py = pk[1], pk[2], pk[3], pk[4]
			ins = [][]byte{px, py, r, s, za, msg}
			ok, err = sm2.VerifyZa(px, py, za, msg, r, s)
		case "id":
			pk := packed(c.boolean("packed"), idOf(c), px, py, c.bytes("msg"), r, s)
			id, msg := pk[0], pk[3]
			px, py, r, s = pk[1], pk[2], pk[4], pk[5]
			ins = [][]byte{px, py, r, s, []byte(idLog(c, id)), msg}
			ok, err = sm2.Verify(id, px, py, msg, r, s)
		default:
			panic("harness: bad kind")
		}
		ev["ok"], ev["err"] = ok, errStr(err)
	})
	register("sm2.za", func(ctx *Ctx, c Cmd, ev Ev) {
		pk := packed(c.boolean("packed"), idOf(c), c.bytes("pubx"), c.bytes("puby"))
		id, px, py := pk[0], pk[1], pk[2]
		ev["za"], ev["err"] = B(nil), "unset"
		za, err := sm2.ZA(id, px, py)
		ev["za"], ev["err"] = B(za), errStr(err)
		ev["ins_after"] = []B{idLog(c, id), B(px), B(py)}
	})
	register("sm2.derivepublic", func(ctx *Ctx, c Cmd, ev Ev) {
		priv := c.bytes("priv")
		ev["x"], ev["y"], ev["err"] = B(nil), B(nil), "unset"
		defer func() { ev["priv_after"] = B(priv) }()
		x, y, err := sm2.DerivePublic(priv)
		ev["x"], ev["y"], ev["err"] = B(x), B(y), errStr(err)
	})
	register("sm2.testpriv", func(ctx *Ctx, c Cmd, ev Ev) {
		priv := c.bytes("priv")
		if priv == nil {
			priv = []byte{}
		}
		ev["res"] = -99
		defer func() { ev["priv_after"] = B(priv) }()
		ev["res"] = sm2.TestPrivateKey(priv)
	})
	register("sm2.checkoncurve", func(ctx *Ctx, c Cmd, ev Ev) {
		x, y := c.bytes("x"), c.bytes("y")
		ev["ok"] = false
		ev["ok"] = sm2.CheckOnCurve(x, y)
	})
}
