package main

import (
	"github.com/bilibili/smgo/sm2/internal"
	"github.com/bilibili/smgo/sm2/internal/fiat"
	"github.com/bilibili/smgo/sm3"
	"github.com/bilibili/smgo/sm4"
)

func rawBE(r *[4]uint64) B {
	out := make([]byte, 32)
	for i := 0; i < 4; i++ {
		w := r[3-i]
		for j := 0; j < 8; j++ {
			out[8*i+j] = byte(w >> (56 - 8*j))
		}
	}
	return out
}

func w32(v []uint32) [][]int {
	out := make([][]int, len(v))
	for i, w := range v {
		out[i] = []int{int(w >> 16), int(w & 0xffff)}
	}
	return out
}

func init() {
	// tab.comb {scheme: 0..3, j}: one sub-table of raw Montgomery-form affine coordinates
	register("tab.comb", func(ctx *Ctx, c Cmd, ev Ev) {
		first, _ := internal.VerifTables()
		t := first[c.num("scheme")]
		ev["subtables"] = len(t)
		st := t[c.num("j")]
		xs, ys := []B{}, []B{}
		for i := range st[0] {
			xs = append(xs, rawBE(st[0][i]))
			ys = append(ys, rawBE(st[1][i]))
		}
		ev["xs"], ev["ys"] = xs, ys
		ev["coords"] = len(st)
	})
	register("tab.rem", func(ctx *Ctx, c Cmd, ev Ev) {
		_, second := internal.VerifTables()
		t := second[c.num("scheme")]
		xs, ys := []B{}, []B{}
		if t != nil {
			for i := range t[0] {
				xs = append(xs, rawBE(t[0][i]))
				ys = append(ys, rawBE(t[1][i]))
			}
		}
		ev["xs"], ev["ys"] = xs, ys
		ev["present"] = t != nil
	})
	register("tab.sm4", func(ctx *Ctx, c Cmd, ev Ev) {
		sb, t0, t1, t2, t3, ck, fk := sm4.VerifTables()
		ev["sbox"] = B(sb[:])
		ev["s0"], ev["s1"], ev["s2"], ev["s3"] = w32(t0[:]), w32(t1[:]), w32(t2[:]), w32(t3[:])
		ev["ck"], ev["fk"] = w32(ck[:]), w32(fk[:])
	})
	register("tab.sm3", func(ctx *Ctx, c Cmd, ev Ev) {
		tt, iv := sm3.VerifTT(), sm3.VerifIV()
		ev["tt"], ev["iv"] = w32(tt[:]), w32(iv[:])
	})
	register("tab.fiat", func(ctx *Ctx, c Cmd, ev Ev) {
		pc := fiat.VerifDivstepPrecomp()
		ev["divstep_precomp"] = rawBE(&pc)
		one := new(fiat.SM2Element).One()
		ev["one_raw"] = rawBE(one.GetRaw())
	})
	register("tab.curve", func(ctx *Ctx, c Cmd, ev Ev) {
		ev["b"] = B(internal.VerifB().Bytes())
		ev["g"] = B(internal.VerifG().Bytes())
		ev["z"] = B(internal.GetZBytes())
		ev["n"] = B(internal.GetN().Bytes())
	})
}

func init() {
	// DATA blocks parsed from the .s files by vlib/props/c18.py travel through the executor
	// unchanged so that they are validated by the same trace machinery.
	noop := func(ctx *Ctx, c Cmd, ev Ev) {}
	register("asm.amd64", noop)
	register("asm.arm64", noop)
	register("asm.arm64imm", noop)
}

func init() {
	// leakage-trace events are assembled by vlib/props/c08.py from leakfilter output
	noop := func(ctx *Ctx, c Cmd, ev Ev) {}
	register("leak.pair", noop)
	register("pc.pair", noop)
	register("pc.entered", noop)
	register("leak.schedule", noop)
}
