// Command asmtarget calls ONE assembly routine of package sm4 once, on the main OS thread, with
// buffers of the requested lengths filled with pseudo-random data (seeded by the last argument),
// so that `drv asmtrace` can single-step exactly that call under ptrace (C09 binding).
// usage: asmtarget seal|open <text> <aad> <nonce> <tag> <seed> [tag byte to corrupt] | kernel <n> <seed> | copy <len> <seed>
package main

import (
	"fmt"
	"math/rand"
	"os"
	"runtime"
	"strconv"
	"unsafe"

	"github.com/bilibili/smgo/sm4"
)

func init() { runtime.LockOSThread() }

func atoi(s string) int { v, _ := strconv.Atoi(s); return v }

func rnd(r *rand.Rand, n int) []byte {
	b := make([]byte, n)
	r.Read(b)
	return b
}

func main() {
	a := os.Args[1:]
	switch a[0] {
	case "seal", "open":
		tl, al, nl, ts := atoi(a[1]), atoi(a[2]), atoi(a[3]), atoi(a[4])
		r := rand.New(rand.NewSource(int64(atoi(a[5]))))
		key, nonce, aad, pt := rnd(r, 16), rnd(r, nl), rnd(r, al), rnd(r, tl)
		enc, _ := sm4.VerifExpandKeyAsm(key)
		var temp [32]byte
		dst := make([]byte, tl+ts)
		if a[0] == "seal" {
			sm4.VerifSealAsm(&enc[0], ts, &dst[0], nonce, pt, aad, &temp[0])
		} else {
			// an authentic message, produced by the sealing routine itself (its agreement with the
			// specification is C06's business; here only the instruction sequence of openAsm matters)
			ct := make([]byte, tl+ts)
			var t2 [32]byte
			sm4.VerifSealAsm(&enc[0], ts, &ct[0], nonce, pt, aad, &t2[0])
			flip := -1 // optional 7th argument: index of a tag byte to corrupt (a refused message)
			if len(a) > 6 {
				flip = atoi(a[6])
			}
			if flip >= 0 {
				ct[tl+flip%ts] ^= 0x5a
			}
			out := make([]byte, tl+1)
			ok := sm4.VerifOpenAsm(&enc[0], ts, &out[0], nonce, ct, aad, &temp[0])
			if flip < 0 && ok != 1 {
				fmt.Fprintln(os.Stderr, "asmtarget: authentic message rejected")
				os.Exit(3)
			}
		}
	case "kernel":
		n := atoi(a[1])
		r := rand.New(rand.NewSource(int64(atoi(a[2]))))
		enc, _ := sm4.VerifExpandKey(rnd(r, 16))
		src, dst := rnd(r, 16*n), make([]byte, 16*n)
		sm4.VerifKernel(n, &enc[0], (*byte)(unsafe.Pointer(&dst[0])), (*byte)(unsafe.Pointer(&src[0])))
	case "blockenc", "blockdec": // one block through the PUBLIC Block interface of a cipher built by NewCipher
		r := rand.New(rand.NewSource(int64(atoi(a[1]))))
		blk, err := sm4.NewCipher(rnd(r, 16))
		if err != nil {
			os.Exit(3)
		}
		src, dst := rnd(r, 16), make([]byte, 16)
		if a[0] == "blockenc" {
			blk.Encrypt(dst, src)
		} else {
			blk.Decrypt(dst, src)
		}
	case "copy":
		n := atoi(a[1])
		r := rand.New(rand.NewSource(int64(atoi(a[2]))))
		src, dst := rnd(r, n+1), make([]byte, n+1)
		sm4.VerifCopyAsm(&dst[0], &src[0], n)
	default:
		os.Exit(3)
	}
}
