------------------------------ MODULE SignLoop ------------------------------
(***************************************************************************)
(* Step-level model of the rejection loops of sm2.GenerateKey and          *)
(* sm2.SignHashed over io.ReadFull on an arbitrary (adversarial) source:   *)
(* one action per Read call of the source and one per candidate test.      *)
(* Unlike SignFlow (recursive operators evaluated on a finite script) the  *)
(* source here is the environment: each Read it may deliver any number of  *)
(* bytes 0..room with or without an error, for ever.  The invariants are   *)
(* inductive and are discharged for every reachable state - unbounded      *)
(* retries, unbounded scripts - by Apalache (IndInit / IndInv, length 1),  *)
(* and explored by TLC at small Unit with the retry counter bounded.       *)
(***************************************************************************)
EXTENDS Integers

CONSTANT
  \* @type: Int;
  Unit

VARIABLES
  \* @type: Str;
  pc,        \* "draw" (inside io.ReadFull), "test" (unit complete), "done"
  \* @type: Int;
  got,       \* bytes of the current unit delivered so far
  \* @type: Str;
  result,    \* "none", "out" (key or signature returned), "err"
  \* @type: Bool;
  sawErr,    \* the source has returned an error during the current unit
  \* @type: Bool;
  clean,     \* every unit tested so far was complete and drawn without a failing Read
  \* @type: Int;
  tested,    \* candidates evaluated
  \* @type: Int;
  drawn      \* bytes accepted from the source

vars == <<pc, got, result, sawErr, clean, tested, drawn>>

Init == pc = "draw" /\ got = 0 /\ result = "none" /\ sawErr = FALSE /\ clean = TRUE /\ tested = 0 /\ drawn = 0

\* one Read(buf[got:Unit]) of the source: n bytes, error or not
Read(n, e) ==
  /\ pc = "draw" /\ n >= 0 /\ n <= Unit - got
  /\ got' = got + n /\ drawn' = drawn + n
  /\ IF got + n = Unit
     THEN \* io.ReadFull: the buffer is full, an error that came with the last bytes is dropped
          pc' = "test" /\ result' = result /\ sawErr' = sawErr
     ELSE IF e THEN pc' = "done" /\ result' = "err" /\ sawErr' = TRUE
          ELSE pc' = "draw" /\ result' = result /\ sawErr' = sawErr
  /\ UNCHANGED <<clean, tested>>

\* the candidate is evaluated: rejected (redraw) or accepted (output)
Test(accept) ==
  /\ pc = "test"
  /\ tested' = tested + 1
  /\ clean' = (clean /\ got = Unit /\ ~sawErr)
  /\ IF accept THEN pc' = "done" /\ result' = "out" /\ got' = got
     ELSE pc' = "draw" /\ result' = result /\ got' = 0
  /\ UNCHANGED <<sawErr, drawn>>

Next == (\E n \in 0..Unit, e \in BOOLEAN : Read(n, e)) \/ (\E a \in BOOLEAN : Test(a))
Spec == Init /\ [][Next]_vars

TypeOK == /\ pc \in {"draw", "test", "done"} /\ result \in {"none", "out", "err"}
          /\ got \in 0..Unit /\ tested \in Nat /\ drawn \in Nat /\ sawErr \in BOOLEAN /\ clean \in BOOLEAN

\* C19: an output exists only if every evaluated candidate was a complete unit read without a
\* failing Read; a failing Read that leaves the unit incomplete ends the call with an error
NoOutputAfterFailure == result = "out" => clean /\ ~sawErr
ErrorIsFinal == sawErr => pc = "done" /\ result = "err"
\* bytes consumed = Unit per evaluated candidate (+ the partial unit in progress)
Accounting == drawn = Unit * tested + (IF pc = "done" /\ result = "out" THEN 0 ELSE got)

IndInv == /\ TypeOK
          /\ NoOutputAfterFailure /\ ErrorIsFinal
          /\ (pc = "test" => got = Unit)
          /\ (pc = "draw" => got < Unit /\ result = "none")
          /\ (pc = "test" => result = "none")
          /\ (pc = "done" => result # "none")
          /\ (result = "err" => sawErr)
          /\ clean
          /\ Accounting
IndInit == /\ pc \in {"draw", "test", "done"} /\ result \in {"none", "out", "err"}
           /\ got \in 0..Unit /\ tested \in Nat /\ drawn \in Nat /\ sawErr \in BOOLEAN /\ clean \in BOOLEAN
           /\ IndInv
CInit == Unit \in {1, 2, 32}
=============================================================================
