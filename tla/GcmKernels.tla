----------------------------- MODULE GcmKernels -----------------------------
(***************************************************************************)
(* Implementation-shaped model (R2) of the fused GCM code                  *)
(* (sm4/gcm_amd64.s: sealAsm / openAsm), over the same abstract block as   *)
(* GCMG so that MC_GcmToy can compare the two exhaustively at toy size:    *)
(*  - counter blocks are produced in LANES: lane i of a w-block kernel     *)
(*    holds counter + i computed modulo Base^CS inside the lane (VPADDD),  *)
(*    never carrying into the IV part;                                     *)
(*  - the text is consumed by the kernel ladder 16 / 8 / 4 / 2 / 1 blocks  *)
(*    (a kernel is repeated while enough text remains) and a final partial *)
(*    block that is processed in a zero-padded scratch block;              *)
(*  - GHASH is aggregated 4 blocks at a time with H^4..H^1                 *)
(*        Y' = (Y + X1) H^4 + X2 H^3 + X3 H^2 + X4 H                       *)
(*    wherever 4 blocks are at hand (inside the 16/8/4 kernels; for aad,   *)
(*    nonce and the ciphertext of Open when at least Thresh blocks), else  *)
(*    block by block;                                                      *)
(*  - Seal hashes the ciphertext as it is produced; Open hashes the whole  *)
(*    ciphertext first, compares the tag, and only then decrypts.          *)
(***************************************************************************)
EXTENDS Naturals, Sequences, Bitwise
CONSTANTS EK(_, _), BS, CS, Base, FMul(_, _), LenBlock(_, _), IVTail(_), StdIV, Thresh
D == INSTANCE GCMG          \* for the shared helpers only (Zeros, XorS, PadToBlock)

Blk(x, j) == SubSeq(x, (j - 1) * BS + 1, j * BS)            \* j-th block of x (1-based)
NBlocks(x) == Len(x) \div BS

\* ---- counter lanes: numeric addition inside the last CS symbols, modulo Base^CS
RECURSIVE CtrVal(_, _, _)
CtrVal(cb, i, acc) == IF i > BS THEN acc ELSE CtrVal(cb, i + 1, acc * Base + cb[i])
RECURSIVE PowB(_)
PowB(k) == IF k = 0 THEN 1 ELSE Base * PowB(k - 1)
RECURSIVE Enc(_, _, _)
Enc(v, k, acc) == IF k = 0 THEN acc ELSE Enc(v \div Base, k - 1, <<v % Base>> \o acc)
LaneAdd(cb, i) == SubSeq(cb, 1, BS - CS) \o Enc((CtrVal(cb, BS - CS + 1, 0) + i) % PowB(CS), CS, <<>>)

\* ---- GHASH with aggregation
Pows(h) == LET h2 == FMul(h, h) h3 == FMul(h2, h) IN <<h, h2, h3, FMul(h3, h)>>
By4(hp, y, x, j) ==         \* blocks j..j+3 of x
  D!XorS(D!XorS(FMul(D!XorS(y, Blk(x, j)), hp[4]), FMul(Blk(x, j + 1), hp[3])),
         D!XorS(FMul(Blk(x, j + 2), hp[2]), FMul(Blk(x, j + 3), hp[1])))
By1(hp, y, x, j) == FMul(D!XorS(y, Blk(x, j)), hp[1])
RECURSIVE HashBlocks(_, _, _, _, _, _)
HashBlocks(hp, y, x, j, n, four) ==       \* blocks j..n of x; four = aggregate while >= 4 remain
  IF j > n THEN y
  ELSE IF four /\ n - j + 1 >= 4 THEN HashBlocks(hp, By4(hp, y, x, j), x, j + 4, n, four)
  ELSE HashBlocks(hp, By1(hp, y, x, j), x, j + 1, n, four)
\* aad / nonce / ciphertext-of-Open: 4-way only from Thresh blocks on
HashString(hp, y, x) == LET p == D!PadToBlock(x) IN HashBlocks(hp, y, p, 1, NBlocks(p), NBlocks(p) >= Thresh)

\* ---- one kernel of w blocks at block index j of the text: returns <<output blocks, y'>>
RECURSIVE KernelOut(_, _, _, _, _, _)
KernelOut(rk, cb, x, j, w, i) ==
  IF i = w THEN <<>> ELSE D!XorS(Blk(x, j + i), EK(rk, LaneAdd(cb, i))) \o KernelOut(rk, cb, x, j, w, i + 1)

\* ---- the ladder over the whole text.  st = [out, cb, y, j]; hash = fold the CIPHERTEXT into y
Widths == <<16, 8, 4, 2, 1>>
RECURSIVE Ladder(_, _, _, _, _, _, _, _)
Ladder(rk, hp, x, out, cb, y, j, hashct) ==      \* j = next block (1-based); whole blocks only
  LET remain == NBlocks(x) - j + 1
      w == IF remain >= 16 THEN 16 ELSE IF remain >= 8 THEN 8 ELSE IF remain >= 4 THEN 4
           ELSE IF remain >= 2 THEN 2 ELSE IF remain >= 1 THEN 1 ELSE 0
  IN IF w = 0 THEN [out |-> out, cb |-> cb, y |-> y]
     ELSE LET o == KernelOut(rk, cb, x, j, w, 0)
              ct == IF hashct = "out" THEN o ELSE SubSeq(x, (j - 1) * BS + 1, (j + w - 1) * BS)
              y2 == IF hashct = "none" THEN y ELSE HashBlocks(hp, y, ct, 1, w, w >= 4)
          IN Ladder(rk, hp, x, out \o o, LaneAdd(cb, w), y2, j + w, hashct)

Crypt(rk, hp, x, cb0, y0, hashct) ==
  LET r == Ladder(rk, hp, x, <<>>, cb0, y0, 1, hashct)
      tailLen == Len(x) % BS
  IN IF tailLen = 0 THEN [out |-> r.out, y |-> r.y]
     ELSE \* the remaining symbols are staged in a zeroed scratch block
          LET tl == SubSeq(x, Len(x) - tailLen + 1, Len(x))
              scratch == D!XorS(tl \o D!Zeros(BS - tailLen), EK(rk, r.cb))
              o == SubSeq(scratch, 1, tailLen)
              ctb == IF hashct = "out" THEN o \o D!Zeros(BS - tailLen) ELSE tl \o D!Zeros(BS - tailLen)
              y2 == IF hashct = "none" THEN r.y ELSE FMul(D!XorS(r.y, ctb), hp[1])
          IN [out |-> r.out \o o, y |-> y2]

Prepare(rk, iv, aad) ==
  LET H == EK(rk, D!ZeroBlock)
      hp == Pows(H)
      j0 == IF Len(iv) = StdIV THEN iv \o D!Zeros(BS - StdIV - 1) \o <<1>>
            ELSE FMul(D!XorS(HashString(hp, D!ZeroBlock, iv), IVTail(Len(iv))), hp[1])
  IN [hp |-> hp, j0 |-> j0, mask |-> EK(rk, j0), ya |-> HashString(hp, D!ZeroBlock, aad)]

Finish(p, y, alen, clen, t) == SubSeq(D!XorS(FMul(D!XorS(y, LenBlock(alen, clen)), p.hp[1]), p.mask), 1, t)

Seal(rk, iv, aad, pt, t) ==
  LET p == Prepare(rk, iv, aad)
      c == Crypt(rk, p.hp, pt, LaneAdd(p.j0, 1), p.ya, "out")
  IN c.out \o Finish(p, c.y, Len(aad), Len(pt), t)

Open(rk, iv, aad, ct, t) ==
  IF Len(ct) < t THEN [ok |-> FALSE, pt |-> <<>>]
  ELSE LET p == Prepare(rk, iv, aad)
           c == SubSeq(ct, 1, Len(ct) - t)
           tg == SubSeq(ct, Len(ct) - t + 1, Len(ct))
           y == HashString(p.hp, p.ya, c)              \* whole ciphertext first
       IN IF Finish(p, y, Len(aad), Len(c), t) = tg
          THEN [ok |-> TRUE, pt |-> Crypt(rk, p.hp, c, LaneAdd(p.j0, 1), y, "none").out]
          ELSE [ok |-> FALSE, pt |-> <<>>]
=============================================================================
