SPECIFICATION Spec
CONSTANTS P = 11
          B = 1
INVARIANTS AddComplete DoubleComplete CurveIsPrimeOrder
CHECK_DEADLOCK FALSE
