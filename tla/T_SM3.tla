------------------------------- MODULE T_SM3 -------------------------------
(***************************************************************************)
(* Trace specification for C04 (and the Sum part of C10): every recorded   *)
(* Write/Sum/Reset/SumSM3 call on real sm3 objects must be a step of the   *)
(* hash-object specification.                                              *)
(*                                                                         *)
(* Abstract state per handle: the bytes written since the last Reset       *)
(* (definitional view, R1) and, in parallel, the implementation-shaped     *)
(* state (chaining value after the whole blocks, buffered tail, length),   *)
(* which MC_HashObj shows equivalent; the latter is compared with the      *)
(* state projection logged through the verif hook.                         *)
(***************************************************************************)
EXTENDS Naturals, Sequences, TLC, Words
S3 == INSTANCE SM3
H  == INSTANCE HashObj WITH B <- 64, CFop <- S3!CF, IVval <- S3!IV, Out <- WordsToBytes
VARIABLES l, st, bad

Fresh == [written |-> <<>>, injected |-> FALSE, m |-> H!New]

Halves(ws) == << ws[1][1], ws[1][2], ws[2][1], ws[2][2], ws[3][1], ws[3][2], ws[4][1], ws[4][2],
                 ws[5][1], ws[5][2], ws[6][1], ws[6][2], ws[7][1], ws[7][2], ws[8][1], ws[8][2] >>

ProjOK(o, ev) == /\ ev.st_nx = Len(o.m.buf)
                 /\ ev.st_len = o.m.len
                 /\ ev.st_x = o.m.buf
                 /\ ev.st_h = Halves(o.m.v)

Has(s, h) == h \in DOMAIN s
Put(s, h, o) == [x \in (DOMAIN s) \cup {h} |-> IF x = h THEN o ELSE s[x]]

Expect(s, ev) ==
  CASE ev.op = "sm3.new" ->
         LET o == Fresh IN
         [st |-> Put(s, ev.h, o), ok |-> ev.panic = "", why |-> "new: panic"]
    [] ev.op = "sm3.reset" ->
         LET o == Fresh IN
         [st |-> Put(s, ev.h, o), ok |-> ev.panic = "", why |-> "reset: panic"]
    [] ev.op = "sm3.inject" ->
         \* state injection (verif hook): the object is placed at an arbitrary (v, buffer, length);
         \* from here on only the machine view is available (written = "unknown history")
         LET pairs == [i \in 1..8 |-> <<ev.v[2 * i - 1], ev.v[2 * i]>>]
             o == [written |-> <<>>, injected |-> TRUE, m |-> [v |-> pairs, buf |-> ev.x, len |-> ev.len]]
         IN [st |-> Put(s, ev.h, o), ok |-> ev.panic = "" /\ ProjOK(o, ev), why |-> "inject: state"]
    [] ev.op = "sm3.write" ->
         LET o  == s[ev.h]
             o2 == [written |-> o.written \o ev.data, injected |-> o.injected, m |-> H!Write(o.m, ev.data)]
             okRet == ev.panic = "" /\ ev.n = Len(ev.data) /\ ev.err = ""
             okIn  == ev.data_after = ev.data
             okSt  == ProjOK(o2, ev)
         \* The projected internal state (okSt) is computed but not demanded (only the sm3.inject event itself checks
         \* that the hook placed the state that was asked for): the property is about digests - an implementation
         \* that buffers differently (compresses a full block lazily, say) is not wrong, and a state that really
         \* is corrupted shows in the next Sum of the history.
         IN [st |-> Put(s, ev.h, o2), ok |-> okRet /\ okIn,
             why |-> IF ~okRet THEN "write: return values (n, err)"
                     ELSE IF ~okIn THEN "write: input modified" ELSE "write: state"]
    [] ev.op = "sm3.sum" ->
         LET o == s[ev.h]
             dig == IF o.injected THEN H!Sum(o.m) ELSE S3!Hash(o.written)
             okOut == ev.panic = "" /\ ev.out = ev["in"] \o dig
             okMach == H!Sum(o.m) = dig          \* implementation-shaped machine agrees
             okSt == ProjOK(o, ev)               \* Sum leaves the hash able to continue
             okArr == (ev.spare >= 32 /\ Len(ev["in"]) + ev.spare > 0) => ev.same_array
         \* okArr (the result re-uses in's array when it has room) is what append does, but the property asks for the
         \* appended VALUE only: recorded, not demanded.  okSt: see sm3.write.
         IN [st |-> s, ok |-> okOut /\ okMach,
             why |-> IF ~okOut THEN "sum: digest"
                     ELSE IF ~okMach THEN "sum: machine/definition mismatch (spec)"
                     ELSE IF ~okSt THEN "sum: state changed" ELSE "sum: append contract"]
    [] ev.op = "sm3.sumsm3" ->
         [st |-> s, ok |-> ev.panic = "" /\ ev.out = S3!Hash(ev.data) /\ ev.data_after = ev.data,
          why |-> "sumsm3: digest"]
    [] ev.op = "sm3.sizes" ->
         [st |-> s, ok |-> ev.panic = "" /\ ev.size = 32 /\ ev.blocksize = 64, why |-> "sizes"]

InitSt == <<>>
TC == INSTANCE TraceCommon
Spec == TC!Spec
Done == TC!Done
Post == TC!Post
=============================================================================
