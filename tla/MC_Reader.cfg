SPECIFICATION Spec
CONSTANTS P = 43
          A = 40
          B = 10
          Gx = 6
          Gy = 6
          Nn = 37
          NBits = 7
          Unit = 2
          Syms = {0, 7}
          MaxSteps = 3
          DKey = 5
          EDig = 9
INVARIANTS SignAgrees KeyGenAgrees ReadDiscipline
CHECK_DEADLOCK FALSE
