-------------------------------- MODULE Util --------------------------------
(***************************************************************************)
(* Definitional layer for C20: lexicographic comparison and the w-NAF      *)
(* predicate.  Digit sequences are little-endian (digits[i+1] has weight   *)
(* 2^i); the integer is a big-endian byte string.                          *)
(***************************************************************************)
EXTENDS Integers, Sequences

\* -1 / 0 / 1 as the lexicographic order of the first l bytes dictates
RECURSIVE LexCmpFrom(_, _, _, _)
LexCmpFrom(a, b, i, l) ==
  IF i > l THEN 0
  ELSE IF a[i] < b[i] THEN -1
  ELSE IF a[i] > b[i] THEN 1
  ELSE LexCmpFrom(a, b, i + 1, l)
LexCmp(a, b, l) == LexCmpFrom(a, b, 1, l)

Abs(x) == IF x < 0 THEN -x ELSE x
Pow2i(k) == CASE k = 0 -> 1 [] k = 1 -> 2 [] k = 2 -> 4 [] k = 3 -> 8 [] k = 4 -> 16
              [] k = 5 -> 32 [] k = 6 -> 64 [] k = 7 -> 128 [] k = 8 -> 256

\* bit i (weight 2^i) of the big-endian byte string s; 0 beyond its length
BitOf(s, i) ==
  LET byteFromEnd == i \div 8
  IN IF byteFromEnd >= Len(s) THEN 0
     ELSE (s[Len(s) - byteFromEnd] \div Pow2i(i % 8)) % 2

\* shape conditions: every digit zero or odd, |d| < 2^w, at least w zeros after a non-zero digit
DigitsShapeOK(digits, w) ==
  \A i \in 1..Len(digits) :
     LET d == digits[i] IN
       d # 0 => /\ d % 2 = 1                    \* TLC's % is non-negative for a positive modulus
                /\ Abs(d) < Pow2i(w)
                /\ \A j \in (i + 1)..(i + w) : j <= Len(digits) => digits[j] = 0

\* value condition, without big numbers: reconstruct the binary expansion of
\* sum_i digits[i+1] * 2^i bit by bit with a (small, possibly negative) carry and
\* compare it with the bits of s; the carry must end at 0 and s must have no further bits.
RECURSIVE ValueFrom(_, _, _, _)
ValueFrom(digits, s, i, carry) ==      \* i = current weight exponent
  IF i >= Len(digits)
  THEN carry = 0 /\ \A k \in i..(8 * Len(s) - 1) : BitOf(s, k) = 0
  ELSE LET t == digits[i + 1] + carry
           bit == t % 2
       IN /\ bit = BitOf(s, i)
          /\ ValueFrom(digits, s, i + 1, (t - bit) \div 2)
DigitsValueOK(digits, s) == ValueFrom(digits, s, 0, 0)

IsNAF(digits, w, s) == DigitsShapeOK(digits, w) /\ DigitsValueOK(digits, s)
=============================================================================
