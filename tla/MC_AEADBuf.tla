----------------------------- MODULE MC_AEADBuf -----------------------------
(***************************************************************************)
(* Exhaustive small model for C10: for every destination shape             *)
(* (len, cap) <= MaxCap, every output size <= MaxNeed and every aliasing   *)
(* (dst unrelated to the input; dst = zero-length prefix of the input's    *)
(* array, the in-place idiom) the implementation shape AppendImpl equals   *)
(* the contract AppendSpec: same resulting slice contents, input cells     *)
(* outside the exact overlap untouched.  Each reached shape is printed for *)
(* the concretiser (R4).                                                   *)
(***************************************************************************)
EXTENDS Naturals, Sequences, TLC
CONSTANTS MaxCap, MaxNeed
B == INSTANCE AEADBuf
VARIABLES alias, dlen, dcap, need, stage

Init == stage = 0 /\ alias = "none" /\ dlen = 0 /\ dcap = 0 /\ need = 0
Pick == /\ stage = 0 /\ stage' = 1
        /\ alias' \in {"none", "inplace"}
        /\ dcap' \in 0..MaxCap /\ dlen' \in 0..MaxCap /\ need' \in 0..MaxNeed
        /\ dlen' <= dcap'
        /\ (alias' = "inplace" => dlen' = 0)
Next == Pick
Spec == Init /\ [][Next]_<<alias, dlen, dcap, need, stage>>

\* concrete memory for the shape: array "D" holds dst (cells 10,11,..) then spare capacity
\* (cells 90+); for inplace the input of length inlen lives at the front of "D".
InLen == IF need > 0 THEN need - 1 ELSE 0          \* e.g. Open: output shorter than input
Mem == IF alias = "inplace"
       THEN [x \in {"D", "I"} |-> IF x = "D" THEN [i \in 1..dcap |-> IF i <= InLen THEN 20 + i ELSE 90 + i]
                                  ELSE <<1, 2>>]
       ELSE [x \in {"D", "I"} |-> IF x = "D" THEN [i \in 1..dcap |-> IF i <= dlen THEN 10 + i ELSE 90 + i]
                                  ELSE <<21, 22, 23>>]
Dst == [arr |-> "D", off |-> 0, len |-> dlen, cap |-> dcap]
Out == [i \in 1..need |-> 50 + i]

Contract ==
  stage = 1 =>
    LET s == B!AppendSpec(Mem, Dst, Out, "F")
        m == B!AppendImpl(Mem, Dst, Out, "F")
    IN /\ B!Cells(m.mem, m.res) = B!Cells(s.mem, s.res)                 \* dst || out
       /\ B!Cells(s.mem, s.res) = SubSeq(Mem["D"], 1, dlen) \o Out
       /\ m.res.len = dlen + need
       /\ m.mem["I"] = Mem["I"]                                         \* unrelated input untouched
       /\ (m.res.arr = "F" => m.mem["D"] = Mem["D"])                    \* reallocation leaves the old array alone
       /\ (m.res.arr = "D" => \A i \in (dlen + need + 1)..dcap : m.mem["D"][i] = Mem["D"][i])
EmitShape == stage = 1 => PrintT(<<"SHAPE", alias, dlen, dcap, need>>)
=============================================================================
