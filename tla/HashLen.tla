------------------------------ MODULE HashLen ------------------------------
(***************************************************************************)
(* Length-level abstraction of the sm3 hash object (HashObj with the data  *)
(* forgotten): fill level nx, total length len, number of compressions.    *)
(* The Write step is the three-phase code shape (top up the buffer / whole *)
(* blocks / tail); Sum pads a copy.  The invariants - fill level = len mod *)
(* B, compressions = len div B, and the padded message is the SMALLEST     *)
(* multiple of B that holds message + 0x80 + length field - are inductive  *)
(* and are discharged by Apalache for every history and every length       *)
(* (MC_HashObj explores them with TLC at B = 4 up to 20 bytes and checks   *)
(* that HashObj's buffer lengths are this module's; T_SM3 binds HashObj to *)
(* the code at B = 64).                                                    *)
(***************************************************************************)
EXTENDS Integers

CONSTANTS
  \* @type: Int;
  B,
  \* @type: Int;
  LB

VARIABLES
  \* @type: Int;
  nx,
  \* @type: Int;
  len,
  \* @type: Int;
  blocks

\* @type: (Int, Int) => { nx: Int, cf: Int };
WriteStep(x, n) ==
  LET take == IF x > 0 THEN (IF n < B - x THEN n ELSE B - x) ELSE 0
      x1   == x + take
      full == x1 = B
      rest == n - take
  IN IF x1 > 0 /\ ~full THEN [nx |-> x1, cf |-> 0]
     ELSE [nx |-> rest % B, cf |-> (IF full THEN 1 ELSE 0) + (rest \div B)]

\* Sum on a copy: <<extra compressions, zero bytes written>>
\* @type: Int => { extra: Int, zeros: Int };
SumStep(x) == IF x + 1 > B - LB THEN [extra |-> 2, zeros |-> (B - (x + 1)) + (B - LB)]
              ELSE [extra |-> 1, zeros |-> B - LB - (x + 1)]

Init == nx = 0 /\ len = 0 /\ blocks = 0
Write(n) == LET w == WriteStep(nx, n) IN nx' = w.nx /\ blocks' = blocks + w.cf /\ len' = len + n
Reset == nx' = 0 /\ len' = 0 /\ blocks' = 0
Next == (\E n \in Nat : Write(n)) \/ Reset
\* @type: <<Int, Int, Int>>;
vars == <<nx, len, blocks>>
Spec == Init /\ [][Next]_vars

FillLevel == nx = len % B /\ nx >= 0 /\ nx < B
Compressions == blocks = len \div B
\* the padded message: len + 1 + zeros + LB bytes = (blocks + extra) * B, and zeros < B (no spare block)
PadShape == LET s == SumStep(nx)
            IN /\ s.zeros >= 0 /\ s.zeros < B
               /\ len + 1 + s.zeros + LB = (blocks + s.extra) * B
IndInv == len >= 0 /\ FillLevel /\ Compressions /\ PadShape
IndInit == nx \in Int /\ len \in Int /\ blocks \in Int /\ IndInv
CInit64 == B = 64 /\ LB = 8
CInit4 == B = 4 /\ LB = 1
=============================================================================
