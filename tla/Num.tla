-------------------------------- MODULE Num --------------------------------
(***************************************************************************)
(* One arithmetic vocabulary, two carriers: plain TLC integers (toy curves *)
(* in the exhaustive models) or BigNat byte strings (the SM2 curve in      *)
(* trace validation).  EC.tla and SM2.tla are written once against this    *)
(* vocabulary, so the text TLC model-checks exhaustively at toy size is    *)
(* the same text that judges 256-bit executions.                           *)
(***************************************************************************)
EXTENDS Integers, Sequences
CONSTANT BigMode
BN == INSTANCE BigNat

NZero == IF BigMode THEN BN!Zero ELSE 0
NOne  == IF BigMode THEN BN!One ELSE 1
NInt(i) == IF BigMode THEN BN!FromInt(i) ELSE i
NAdd(a, b) == IF BigMode THEN BN!Add(a, b) ELSE a + b
NSub(a, b) == IF BigMode THEN BN!Sub(a, b) ELSE a - b          \* a >= b
NMul(a, b) == IF BigMode THEN BN!Mul(a, b) ELSE a * b
NMod(a, m) == IF BigMode THEN BN!Mod(a, m) ELSE a % m
NLt(a, b)  == IF BigMode THEN BN!Lt(a, b) ELSE a < b
NLe(a, b)  == IF BigMode THEN BN!Le(a, b) ELSE a <= b
NEq(a, b)  == IF BigMode THEN BN!Eq(a, b) ELSE a = b
NIsZero(a) == IF BigMode THEN BN!IsZero(a) ELSE a = 0
NNorm(a)   == IF BigMode THEN BN!Norm(a) ELSE a
NBit(a, i) == IF BigMode THEN BN!Bit(a, i)
              ELSE LET RECURSIVE Sh(_, _)
                       Sh(v, k) == IF k = 0 THEN v % 2 ELSE Sh(v \div 2, k - 1)
                   IN Sh(a, i)

NModAdd(a, b, m) == IF BigMode THEN BN!ModAdd(a, b, m) ELSE (a + b) % m
NModSub(a, b, m) == IF BigMode THEN BN!ModSub(a, b, m) ELSE ((a % m) + m - (b % m)) % m
NModMul(a, b, m) == IF BigMode THEN BN!ModMul(a, b, m) ELSE (a * b) % m
RECURSIVE IntExp(_, _, _)
IntExp(a, e, m) == IF e = 0 THEN 1 % m
                   ELSE LET h == IntExp(a, e \div 2, m)
                            s == (h * h) % m
                        IN IF e % 2 = 1 THEN (s * a) % m ELSE s
\* inverse modulo a prime (0 for 0)
NModInv(a, m) == IF BigMode THEN BN!ModInv(a, m) ELSE IntExp(a % m, m - 2, m)
=============================================================================
