SPECIFICATION Spec
CONSTANTS MaxText = 70
          MaxAad = 20
          MaxIV = 5
INVARIANTS ZeroIvLemma ZeroAadLemma SealAgrees RoundTrip OpenAgrees LanesAreInc
CHECK_DEADLOCK FALSE
