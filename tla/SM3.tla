-------------------------------- MODULE SM3 --------------------------------
(***************************************************************************)
(* GB/T 32905-2016 (SM3) as executable TLA+ operators over byte sequences. *)
(* Definitional layer (R1): this text is the meaning of "the SM3 digest";  *)
(* the round constants are derived (T_j <<< (j mod 32)), not tabulated.    *)
(***************************************************************************)
EXTENDS Words

IV == << W(29568, 5743),  W(18708, 45753), W(5924, 17111),  W(55946, 1536),
         W(43375, 12476), W(5681, 14506),  W(58253, 61005), W(45307, 3662) >>
    \* 7380166f 4914b2b9 172442d7 da8a0600 a96f30bc 163138aa e38dee4d b0fb0e4e

T(j) == IF j < 16 THEN W(31180, 17689) ELSE W(31367, 40330)   \* 79cc4519 / 7a879d8a
TRot(j) == WRotl(T(j), j % 32)

FF(j, x, y, z) == IF j < 16 THEN WXor3(x, y, z)
                  ELSE WOr(WOr(WAnd(x, y), WAnd(x, z)), WAnd(y, z))
GG(j, x, y, z) == IF j < 16 THEN WXor3(x, y, z)
                  ELSE WOr(WAnd(x, y), WAnd(WNot(x), z))
P0(x) == WXor3(x, WRotl(x, 9), WRotl(x, 17))
P1(x) == WXor3(x, WRotl(x, 15), WRotl(x, 23))

\* message expansion: 68 words W_0..W_67 from a 64-byte block (sequence index j+1)
RECURSIVE ExpandAcc(_, _)
ExpandAcc(w, j) ==
  IF j = 68 THEN w
  ELSE ExpandAcc(Append(w,
         WXor3(P1(WXor3(w[j - 16 + 1], w[j - 9 + 1], WRotl(w[j - 3 + 1], 15))),
               WRotl(w[j - 13 + 1], 7), w[j - 6 + 1])), j + 1)
Block16(B) == << WFromBytes(B, 1),  WFromBytes(B, 5),  WFromBytes(B, 9),  WFromBytes(B, 13),
                 WFromBytes(B, 17), WFromBytes(B, 21), WFromBytes(B, 25), WFromBytes(B, 29),
                 WFromBytes(B, 33), WFromBytes(B, 37), WFromBytes(B, 41), WFromBytes(B, 45),
                 WFromBytes(B, 49), WFromBytes(B, 53), WFromBytes(B, 57), WFromBytes(B, 61) >>
Expand(B) == ExpandAcc(Block16(B), 16)

\* one round on the register tuple <<A,B,C,D,E,F,G,H>>
Round(r, w, j) ==
  LET A == r[1] B == r[2] C == r[3] D == r[4] E == r[5] F == r[6] G == r[7] H == r[8]
      a12 == WRotl(A, 12)
      SS1 == WRotl(WAdd3(a12, E, TRot(j)), 7)
      SS2 == WXor(SS1, a12)
      Wj  == w[j + 1]
      Wpj == WXor(Wj, w[j + 5])
      TT1 == WAdd4(FF(j, A, B, C), D, SS2, Wpj)
      TT2 == WAdd4(GG(j, E, F, G), H, SS1, Wj)
  IN  << TT1, A, WRotl(B, 9), C, P0(TT2), E, WRotl(F, 19), G >>

RECURSIVE Rounds(_, _, _)
Rounds(r, w, j) == IF j = 64 THEN r ELSE Rounds(Round(r, w, j), w, j + 1)

\* compression function: V (8 words), B (64 bytes) -> 8 words
CF(V, B) ==
  LET w == Expand(B)
      r == Rounds(V, w, 0)
  IN  << WXor(V[1], r[1]), WXor(V[2], r[2]), WXor(V[3], r[3]), WXor(V[4], r[4]),
         WXor(V[5], r[5]), WXor(V[6], r[6]), WXor(V[7], r[7]), WXor(V[8], r[8]) >>

\* padding of an l-byte message: 0x80, k zero bytes, 64-bit big-endian bit length,
\* k the least value with l + 1 + k = 56 (mod 64)
PadZeros(l) == (119 - (l % 64)) % 64
BitLen64(l) ==   \* l < 2^28 bytes, so the bit length fits 32 bits
  << 0, 0, 0, 0 >> \o WToBytes(<< (l \div 8192) % 65536, (l % 8192) * 8 >>)
Pad(msg) == msg \o <<128>> \o Zeros(PadZeros(Len(msg))) \o BitLen64(Len(msg))

RECURSIVE Absorb(_, _, _)
Absorb(V, m, i) ==   \* m has a whole number of blocks; i is the 1-based offset of the next one
  IF i > Len(m) THEN V ELSE Absorb(CF(V, SubSeq(m, i, i + 63)), m, i + 64)

Hash(msg) == WordsToBytes(Absorb(IV, Pad(msg), 1))

\* standard vectors (GB/T 32905 appendix A)
RECURSIVE Rep(_, _, _)
Rep(s, k, acc) == IF k = 0 THEN acc ELSE Rep(s, k - 1, acc \o s)
Vec1Msg == <<97, 98, 99>>
    \* 66c7f0f4 62eeedd9 d1f2d46b dc10e4e2 4167c487 5cf2f7a2 297da02b 8f4ba8e0
Vec1DigStd == << 102,199,240,244, 98,238,237,217, 209,242,212,107, 220,16,228,226,
                 65,103,196,135, 92,242,247,162, 41,125,160,43, 143,75,168,224 >>
Vec2Msg == Rep(<<97, 98, 99, 100>>, 16, <<>>)
    \* debe9ff9 2275b8a1 38604889 c18e5a4d 6fdb70e5 387e5765 293dcba3 9c0c5732
Vec2DigStd == << 222,190,159,249, 34,117,184,161, 56,96,72,137, 193,142,90,77,
                 111,219,112,229, 56,126,87,101, 41,61,203,163, 156,12,87,50 >>
VectorsOK == Hash(Vec1Msg) = Vec1DigStd /\ Hash(Vec2Msg) = Vec2DigStd
=============================================================================
