SPECIFICATION Spec
CONSTANTS MaxCap = 4
          MaxNeed = 3
INVARIANTS Contract EmitShape
CHECK_DEADLOCK FALSE
