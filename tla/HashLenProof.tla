--------------------------- MODULE HashLenProof ---------------------------
(***************************************************************************)
(* TLAPS proof, for EVERY block size B and length-field size LB < B, that  *)
(* the three-phase Write of HashLen keeps  len = blocks * B + nx  with     *)
(* 0 <= nx < B  (Euclid's characterisation of nx = len mod B and           *)
(* blocks = len div B) and that Sum's padding then makes the padded length *)
(* (blocks + extra) * B with fewer than B zero bytes.  Apalache discharges *)
(* the %-and-div form of the same invariant at (64, 8) and (4, 1).         *)
(* The only fact about % and \div used is Euclid's division (DivMod).      *)
(***************************************************************************)
EXTENDS HashLen, TLAPS

ASSUME Sizes == B \in Nat /\ LB \in Nat /\ LB >= 1 /\ B > LB
ASSUME DivMod == \A a \in Nat : a = (a \div B) * B + (a % B) /\ (a % B) \in 0..(B - 1) /\ (a \div B) \in Nat

Euclid == len \in Nat /\ blocks \in Nat /\ nx \in 0..(B - 1) /\ len = blocks * B + nx
Pad == LET s == SumStep(nx) IN s.zeros \in 0..(B - 1) /\ len + 1 + s.zeros + LB = (blocks + s.extra) * B

LEMMA InitE == Init => Euclid
  BY Sizes DEF Init, Euclid

LEMMA ResetE == ASSUME Euclid, Reset PROVE Euclid'
  BY Sizes DEF Reset, Euclid

LEMMA WriteE == ASSUME Euclid, NEW n \in Nat, Write(n) PROVE Euclid'
  <1> DEFINE take == IF nx > 0 THEN (IF n < B - nx THEN n ELSE B - nx) ELSE 0
             x1 == nx + take
             rest == n - take
  <1>0 take \in Nat /\ take <= n /\ x1 \in 0..B /\ rest \in Nat
    BY Sizes DEF Euclid
  <1>1 CASE x1 > 0 /\ x1 # B
    <2>0 WriteStep(nx, n) = [nx |-> x1, cf |-> 0]
      BY <1>1 DEF WriteStep
    <2>1 nx' = x1 /\ blocks' = blocks /\ len' = len + n
      BY <2>0, <1>0 DEF Write, Euclid
    <2>2 take = n
      BY <1>1, <1>0, Sizes DEF Euclid
    <2> QED BY <2>1, <2>2, <1>0, <1>1, Sizes DEF Euclid
  <1>2 CASE ~(x1 > 0 /\ x1 # B)
    <2>0 WriteStep(nx, n) = [nx |-> rest % B, cf |-> (IF x1 = B THEN 1 ELSE 0) + (rest \div B)]
      BY <1>2 DEF WriteStep
    <2>1 nx' = rest % B /\ blocks' = blocks + ((IF x1 = B THEN 1 ELSE 0) + (rest \div B)) /\ len' = len + n
      BY <2>0 DEF Write
    <2>2 rest = (rest \div B) * B + (rest % B) /\ (rest % B) \in 0..(B - 1) /\ (rest \div B) \in Nat
      BY <1>0, DivMod
    <2>3 CASE x1 = B
      <3>1 nx + take = B
        BY <2>3
      <3> DEFINE q == rest \div B
      <3>a q \in Nat BY <2>2
      <3>b (blocks + (1 + q)) * B = blocks * B + B + q * B
        BY <3>a, Sizes DEF Euclid
      <3>c len + n = blocks * B + (nx + take) + rest
        BY <1>0, Sizes DEF Euclid
      <3>2 len + n = (blocks + (1 + q)) * B + (rest % B)
        BY <3>1, <3>a, <3>b, <3>c, <2>2, <1>0, Sizes DEF Euclid
      <3>3 blocks' = blocks + (1 + q) /\ nx' = rest % B /\ len' = len + n
        BY <2>1, <2>3
      <3>4 blocks + (1 + q) \in Nat /\ len + n \in Nat
        BY <3>a, Sizes DEF Euclid
      <3> HIDE DEF q
      <3> QED BY <3>2, <3>3, <3>4, <2>2 DEF Euclid
    <2>4 CASE x1 # B
      <3>1 x1 = 0 /\ nx = 0 /\ take = 0
        BY <2>4, <1>2, <1>0, Sizes DEF Euclid
      <3> DEFINE q == rest \div B
      <3>a q \in Nat BY <2>2
      <3>b (blocks + (0 + q)) * B = blocks * B + q * B
        BY <3>a, Sizes DEF Euclid
      <3>2 len + n = (blocks + (0 + q)) * B + (rest % B)
        BY <3>1, <3>a, <3>b, <2>2, <1>0, Sizes DEF Euclid
      <3> QED BY <3>1, <3>2, <2>1, <2>2, <2>4, <1>0, Sizes DEF Euclid
    <2> QED BY <2>3, <2>4
  <1> QED BY <1>1, <1>2

LEMMA PadOK == Euclid => Pad
  <1> SUFFICES ASSUME Euclid PROVE Pad OBVIOUS
  <1>1 CASE nx + 1 > B - LB
    <2>1 SumStep(nx) = [extra |-> 2, zeros |-> (B - (nx + 1)) + (B - LB)]
      BY <1>1 DEF SumStep
    <2>2 (blocks + 2) * B = blocks * B + B + B
      BY Sizes DEF Euclid
    <2> QED BY <2>1, <2>2, <1>1, Sizes DEF Euclid, Pad
  <1>2 CASE ~(nx + 1 > B - LB)
    <2>1 SumStep(nx) = [extra |-> 1, zeros |-> B - LB - (nx + 1)]
      BY <1>2 DEF SumStep
    <2>2 (blocks + 1) * B = blocks * B + B
      BY Sizes DEF Euclid
    <2> QED BY <2>1, <2>2, <1>2, Sizes DEF Euclid, Pad
  <1> QED BY <1>1, <1>2

THEOREM Safety == Spec => [](Euclid /\ Pad)
  <1>1 Euclid /\ [Next]_vars => Euclid'
    BY WriteE, ResetE DEF Next, vars, Euclid
  <1>2 Spec => []Euclid
    BY InitE, <1>1, PTL DEF Spec
  <1> QED BY <1>2, PadOK, PTL
=============================================================================
