------------------------------ MODULE HashObj ------------------------------
(***************************************************************************)
(* Implementation-shaped model (R2) of the sm3 hash object:                *)
(* state (v, buf, len) = chaining value after the compressed whole blocks, *)
(* the buffered partial block (Len(buf) = nx < B), total byte count.       *)
(* Mirrors sm3.go: Write (fill buffer / whole-block fast path / tail),     *)
(* Sum on a copy (pad 0x80, zero fill to B-8 mod B, length field).         *)
(* Parameterised by the block size B, the compression function and the IV  *)
(* so that MC_HashObj can check it exhaustively at toy size against the    *)
(* definition (pad the whole message, then absorb) and T_SM3 can run it at *)
(* production size next to the real code.                                  *)
(***************************************************************************)
EXTENDS Naturals, Sequences, Words
CONSTANTS B, CFop(_, _), IVval, Out(_)

New == [v |-> IVval, buf |-> <<>>, len |-> 0]

RECURSIVE AbsorbBlocks(_, _, _)
AbsorbBlocks(v, d, i) ==       \* compress whole blocks of d starting at offset i (1-based)
  IF i + B - 1 > Len(d) THEN <<v, i>>
  ELSE AbsorbBlocks(CFop(v, SubSeq(d, i, i + B - 1)), d, i + B)

Write(m, data) ==
  LET room  == B - Len(m.buf)
      take  == IF Len(m.buf) > 0 THEN (IF Len(data) < room THEN Len(data) ELSE room) ELSE 0
      buf1  == m.buf \o SubSeq(data, 1, take)
      full  == Len(buf1) = B
      v1    == IF full THEN CFop(m.v, buf1) ELSE m.v
      buf2  == IF full THEN <<>> ELSE buf1
      rest  == SubSeq(data, take + 1, Len(data))
  IN IF Len(buf2) > 0
     THEN [v |-> v1, buf |-> buf2, len |-> m.len + Len(data)]      \* still inside the buffer
     ELSE LET r == AbsorbBlocks(v1, rest, 1)
          IN [v |-> r[1], buf |-> SubSeq(rest, r[2], Len(rest)), len |-> m.len + Len(data)]

LenField(n) ==    \* 64-bit big-endian bit count in production; B \div 8 ... see MC_HashObj
  IF B = 64 THEN \* big-endian 64-bit value of 8n, byte by byte (n < 2^31; no intermediate exceeds 2^31)
                 << 0, 0, 0, (n \div 536870912) % 256, (n \div 2097152) % 256, (n \div 8192) % 256,
                    (n \div 32) % 256, (n % 32) * 8 >>
  ELSE <<n % 256>>
LenBytes == IF B = 64 THEN 8 ELSE 1
MaxTail == B - LenBytes

\* Sum: pad a copy.  One more block iff the 0x80 byte does not leave room for the length.
Sum(m) ==
  LET nx1  == Len(m.buf) + 1
      b1   == Append(m.buf, 128)
  IN IF nx1 > MaxTail
     THEN LET v1 == CFop(m.v, b1 \o Zeros(B - nx1))
          IN Out(CFop(v1, Zeros(MaxTail) \o LenField(m.len)))
     ELSE Out(CFop(m.v, b1 \o Zeros(MaxTail - nx1) \o LenField(m.len)))
=============================================================================
