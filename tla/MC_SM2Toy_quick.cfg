SPECIFICATION Spec
CONSTANTS P = 43
          A = 40
          B = 10
          Gx = 6
          Gy = 6
          Nn = 37
          NBits = 7
          EMax = 7
          KMax = 63
INVARIANTS Once SignVerifies VerifyTight
CHECK_DEADLOCK FALSE
