------------------------------ MODULE AEADBuf ------------------------------
(***************************************************************************)
(* Abstract memory model of the append contract (C10).  Memory is a set of *)
(* named arrays of cells; a slice is [arr, off, len, cap].  Append(mem, d, *)
(* out) is the contract of Seal/Open/Sum: the result has length            *)
(* len(d)+Len(out), keeps d's prefix, carries out, lives in d's array iff  *)
(* the spare capacity suffices (else in a fresh array), and no cell of any *)
(* other slice changes.  EnsureImpl mirrors sm4_gcm_amd64.go's             *)
(* ensureCapacity as it must behave (reuse and EXTEND, or reallocate and   *)
(* copy the prefix).                                                       *)
(***************************************************************************)
EXTENDS Naturals, Sequences
Cells(mem, s) == SubSeq(mem[s.arr], s.off + 1, s.off + s.len)

\* contract
AppendSpec(mem, d, out, fresh) ==
  IF d.cap - d.len >= Len(out)
  THEN LET a == mem[d.arr]
           na == [i \in 1..Len(a) |-> IF i > d.off + d.len /\ i <= d.off + d.len + Len(out)
                                      THEN out[i - d.off - d.len] ELSE a[i]]
       IN [mem |-> [mem EXCEPT ![d.arr] = na],
           res |-> [arr |-> d.arr, off |-> d.off, len |-> d.len + Len(out), cap |-> d.cap]]
  ELSE [mem |-> [x \in (DOMAIN mem) \cup {fresh} |->
                   IF x = fresh THEN Cells(mem, d) \o out ELSE mem[x]],
        res |-> [arr |-> fresh, off |-> 0, len |-> d.len + Len(out), cap |-> d.len + Len(out)]]

\* implementation shape: ensureCapacity then write the output at position len(d)
EnsureImpl(mem, d, n, fresh) ==
  IF d.cap - d.len >= n
  THEN [mem |-> mem, head |-> [arr |-> d.arr, off |-> d.off, len |-> d.len + n, cap |-> d.cap]]
  ELSE [mem |-> [x \in (DOMAIN mem) \cup {fresh} |->
                   IF x = fresh THEN Cells(mem, d) \o [i \in 1..n |-> 0] ELSE mem[x]],
        head |-> [arr |-> fresh, off |-> 0, len |-> d.len + n, cap |-> d.len + n]]
WriteAt(mem, s, pos, out) ==
  [mem EXCEPT ![s.arr] = [i \in 1..Len(@) |-> IF i > s.off + pos /\ i <= s.off + pos + Len(out)
                                              THEN out[i - s.off - pos] ELSE @[i]]]
AppendImpl(mem, d, out, fresh) ==
  LET e == EnsureImpl(mem, d, Len(out), fresh)
  IN [mem |-> WriteAt(e.mem, e.head, d.len, out), res |-> e.head]
=============================================================================
