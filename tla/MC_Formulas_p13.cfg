SPECIFICATION Spec
CONSTANTS P = 13
          B = 1
INVARIANTS AddComplete DoubleComplete CurveIsPrimeOrder
CHECK_DEADLOCK FALSE
