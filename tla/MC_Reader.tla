----------------------------- MODULE MC_Reader -----------------------------
(***************************************************************************)
(* Exhaustive small model for C19 (and the redraw loops of C02 / C12):     *)
(* SignFlow (the loops as coded, over io.ReadFull) composed with Reader,   *)
(* on the toy curve, draw unit = Unit symbols.  ALL scripts of at most     *)
(* MaxSteps Read results whose chunks have 0..Unit+1 symbols from Syms and  *)
(* whose error is none / EOF / fault are enumerated.                       *)
(*  - a failing or ending source anywhere => error result, nothing more    *)
(*    is read, no candidate is evaluated from a partly filled unit         *)
(*  - short reads without error are completed                              *)
(*  - otherwise the result is the definition's (SM2!SignDef / first valid  *)
(*    key) on the stream of full units, and bytes consumed = Unit * tries  *)
(***************************************************************************)
EXTENDS Integers, Sequences, TLC
CONSTANTS P, A, B, Gx, Gy, Nn, NBits, Unit, Syms, MaxSteps, DKey, EDig
BigMode == FALSE
S == INSTANCE SM2
R == INSTANCE Reader
RECURSIVE NumOf(_, _, _)
NumOf(d, i, acc) == IF i > Len(d) THEN acc ELSE NumOf(d, i + 1, acc * 8 + d[i])    \* base-8 digits
ToNumber(d) == NumOf(d, 1, 0)
F == INSTANCE SignFlow WITH ValidKey <- S!ValidPriv, AttemptOp <- S!Attempt, ToNum <- ToNumber

VARIABLES script, stage
Errs == {"", "EOF", "fault"}
Chunks == UNION {[1..k -> Syms] : k \in 0..(Unit + 1)}
Init == script = <<>> /\ stage = 0
\* errors need not be terminal: a source may deliver more data after having returned an error
\* (the loops must still fail at the first error that leaves a unit incomplete)
Extend == /\ stage = 0 /\ Len(script) < MaxSteps
          /\ \E c \in Chunks, e \in Errs : script' = Append(script, [d |-> c, err |-> e])
          /\ stage' = 0
Stop == stage = 0 /\ stage' = 1 /\ UNCHANGED script
Next == Extend \/ Stop
Spec == Init /\ [][Next]_<<script, stage>>

\* reference semantics, written independently of SignFlow: flatten the script into the
\* symbols delivered before the first error and cut it into full units
RECURSIVE Flat(_, _, _)
Flat(sc, i, acc) ==      \* <<symbols, failed>>
  IF i > Len(sc) THEN <<acc, TRUE>>                     \* script exhausted: EOF
  ELSE LET all == acc \o sc[i].d
       IN \* an error is a failure of the draw in progress unless the bytes that came with it
          \* completed a unit (io.ReadFull drops the error then); a zero-byte error always fails
          IF sc[i].err # "" /\ (Len(sc[i].d) = 0 \/ Len(all) % Unit # 0) THEN <<all, TRUE>>
          ELSE Flat(sc, i + 1, all)
RECURSIVE Units(_, _, _)
Units(sy, i, acc) == IF i + Unit - 1 > Len(sy) THEN acc
                     ELSE Units(sy, i + Unit, Append(acc, ToNumber(SubSeq(sy, i, i + Unit - 1))))
FullUnits == Units(Flat(script, 1, <<>>)[1], 1, <<>>)

SignAgrees ==
  stage = 1 =>
    LET f == F!Sign(DKey, EDig, script)
        ref == S!SignDef(DKey, EDig, FullUnits)
    IN CASE ref.kind = "sig" -> /\ f.kind = "sig" /\ f.r = ref.r /\ f.s = ref.s
                                /\ f.tries = ref.consumed /\ R!Delivered(f.log) = Unit * ref.consumed
         [] ref.kind = "exhausted" -> f.kind = "err" /\ f.tries = ref.consumed
         [] ref.kind = "badkey" -> f.kind = "badkey" /\ f.log = <<>>
RECURSIVE FirstKey(_, _)
FirstKey(us, i) == IF i > Len(us) THEN 0 ELSE IF S!ValidPriv(us[i]) THEN i ELSE FirstKey(us, i + 1)
KeyGenAgrees ==
  stage = 1 =>
    LET g == F!KeyGen(script)
        i == FirstKey(FullUnits, 1)
    IN IF i = 0 THEN g.kind = "err"
       ELSE g.kind = "key" /\ ToNumber(g.d) = FullUnits[i] /\ g.tries = i /\ R!Delivered(g.log) = Unit * i
\* MBT: print the shape (chunk length, error) of every complete script (MC_Reader_mbt.cfg)
RECURSIVE ShapeOf(_, _, _)
ShapeOf(sc, i, acc) == IF i > Len(sc) THEN acc ELSE ShapeOf(sc, i + 1, Append(acc, <<Len(sc[i].d), sc[i].err>>))
EmitScript == stage = 1 => PrintT(<<"SCRIPT", ShapeOf(script, 1, <<>>)>>)
\* never more than one unit is requested at a time, and never past an error
ReadDiscipline ==
  stage = 1 =>
    LET f == F!Sign(DKey, EDig, script)
    IN \A j \in 1..Len(f.log) : /\ f.log[j][1] <= Unit /\ f.log[j][2] <= f.log[j][1]
                                /\ (f.log[j][3] # "" => j = Len(f.log) \/ f.log[j][2] = f.log[j][1])
=============================================================================
