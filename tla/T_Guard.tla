------------------------------- MODULE T_Guard -------------------------------
(***************************************************************************)
(* Trace specification for the dynamic half of C11: calls made with every  *)
(* buffer laid against an inaccessible page.  A memory fault (recorded by  *)
(* the executor as fault = TRUE) is an out-of-range access; results must   *)
(* still be the specified values; short-buffer misuse of Encrypt/Decrypt   *)
(* must end in a (non-fault) panic and must not touch bytes beyond the     *)
(* slice.                                                                  *)
(***************************************************************************)
EXTENDS Naturals, Sequences, TLC, Words
S4 == INSTANCE SM4
G == INSTANCE GCM WITH EK <- S4!CryptWithKeys
S3 == INSTANCE SM3
U == INSTANCE Util
VARIABLES l, st, bad

RECURSIVE Lanes(_, _, _, _)
Lanes(rk, src, i, acc) ==
  IF i + 15 > Len(src) THEN acc ELSE Lanes(rk, src, i + 16, acc \o S4!CryptWithKeys(rk, SubSeq(src, i, i + 15)))
RKHalves(rk) == LET RECURSIVE F(_, _)
                    F(i, acc) == IF i > Len(rk) THEN acc ELSE F(i + 1, acc \o <<rk[i][1], rk[i][2]>>)
                IN F(1, <<>>)
Keys(ev) == LET rk == S4!RoundKeys(ev.key) IN IF ev.dec THEN S4!Reverse(rk) ELSE rk
Why(ev, what) == IF ev.fault THEN what \o ": memory fault (access outside the buffers)"
                 ELSE IF ev.panic # "" THEN what \o ": panic" ELSE what \o ": value"

Expect(s, ev) ==
  CASE ev.op = "guard.aead" ->
         LET rk == S4!RoundKeys(ev.key)
             exp == IF ev.dir = "seal" THEN G!Seal(rk, ev.nonce, ev.aad, ev.text, ev.tagsize)
                    ELSE G!Open(rk, ev.nonce, ev.aad, ev.text, ev.tagsize).pt
         IN [st |-> s, ok |-> ~ev.fault /\ ev.panic = "" /\ ev.err = "" /\ ev.out = exp, why |-> Why(ev, ev.dir)]
    [] ev.op = "guard.block" ->
         IF Len(ev.src) >= 16 /\ ev.dstlen >= 16
         THEN [st |-> s,
               ok |-> ~ev.fault /\ ev.panic = "" /\ SubSeq(ev.out, 1, 16) = S4!CryptWithKeys(Keys(ev), SubSeq(ev.src, 1, 16)),
               why |-> Why(ev, "block")]
         ELSE [st |-> s, ok |-> ~ev.fault /\ ev.panic # "",
               why |-> IF ev.fault THEN "short block: memory fault (silent out-of-range access)"
                       ELSE "short block: no panic"]
    [] ev.op = "guard.heapblock" ->
         [st |-> s, ok |-> ev.panic # "" /\ ~ev.touched_beyond,
          why |-> IF ev.touched_beyond THEN "short block: wrote beyond the destination slice"
                  ELSE "short block: no panic (silent out-of-range access within capacity)"]
    [] ev.op = "guard.kernel" ->
         [st |-> s, ok |-> ~ev.fault /\ ev.panic = "" /\ ev.out = Lanes(Keys(ev), ev.src, 1, <<>>), why |-> Why(ev, "kernel")]
    [] ev.op = "guard.expandkey" ->
         [st |-> s, ok |-> ~ev.fault /\ ev.panic = "" /\ ev.enc = RKHalves(S4!RoundKeys(ev.key)), why |-> Why(ev, "expandkey")]
    [] ev.op = "guard.ghash" ->
         [st |-> s,
          ok |-> ~ev.fault /\ ev.panic = "" /\ ev.out = G!Unlimbs(G!GHashAcc(G!Limbs(ev.h), ev.data, 1, G!Limbs(ev.tag))),
          why |-> Why(ev, "ghash")]

    [] ev.op = "guard.sm3" ->
         LET d == S3!Hash(ev.data)
             pre == [i \in 1..ev.inlen |-> i - 1]
         IN [st |-> s,
             ok |-> ~ev.fault /\ ev.panic = "" /\ ev.out = pre \o d /\ ev.oneshot = d /\ ev.data_after = ev.data,
             why |-> Why(ev, "sm3")]
    [] ev.op = "guard.cmp" ->
         [st |-> s, ok |-> ~ev.fault /\ ev.panic = "" /\ ev.res = U!LexCmp(ev.a, ev.b, Len(ev.a)), why |-> Why(ev, "cmp")]

InitSt == <<>>
TC == INSTANCE TraceCommon
Spec == TC!Spec
Done == TC!Done
Post == TC!Post
=============================================================================
