SPECIFICATION Spec
INVARIANTS NonInterference CounterDesignsLeak
CHECK_DEADLOCK FALSE
