----------------------------- MODULE AsmMachine -----------------------------
(***************************************************************************)
(* Abstract machine for the amd64 assembly routines of sm4 (C09, C11, and  *)
(* the write footprints used by C10 / C17).  Binding B3: the program is    *)
(* not written by hand - module AsmInput is generated at check time from   *)
(* `go tool asm -S` on the current tree (vlib/asmx.py), one instruction    *)
(* record per listing line, together with the call contexts (argument      *)
(* slots and memory regions for each vector of input lengths).             *)
(*                                                                         *)
(* Values are abstract:  pub(n) a public integer, ptr(region, off) a       *)
(* pointer, sec a value derived from key / data bytes, unk a public value  *)
(* the machine does not track, undef.  Vector registers carry a taint      *)
(* only.  Memory contents are not tracked; a load yields sec or unk        *)
(* according to the region.  One spec step executes one instruction, so a  *)
(* behaviour IS the instruction sequence for that length vector; because   *)
(* no data value is ever consulted, the sequence and every address are     *)
(* functions of the lengths alone unless the machine reports otherwise:    *)
(*   C09  a branch whose flags are sec, or an address whose base is sec    *)
(*   C11  an access outside [0, size) of the region the pointer points to  *)
(*   C10  a store into a region that is not writable (an input)            *)
(* Findings are collected in `errs` (the run continues) and printed with   *)
(* the access summary when the routine returns.                            *)
(***************************************************************************)
EXTENDS Integers, Sequences, FiniteSets, TLC, Bitwise
A == INSTANCE AsmInput      \* Prog, Contexts, MaxSteps (generated)

VARIABLES ci, pc, g, vr, kr, fl, acc, errs, steps, nsb
vars == <<ci, pc, g, vr, kr, fl, acc, errs, steps, nsb>>

Pub(n) == [t |-> "pub", r |-> "", v |-> n]
Ptr(r, o) == [t |-> "ptr", r |-> r, v |-> o]
Sec == [t |-> "sec", r |-> "", v |-> 0]
Unk == [t |-> "unk", r |-> "", v |-> 0]
Undef == [t |-> "undef", r |-> "", v |-> 0]

GPRS == {"AX", "BX", "CX", "DX", "SI", "DI", "BP", "SP"} \cup {"R" \o ToString(i) : i \in 0..30}      \* amd64 and arm64 names
VREGS == {"V" \o ToString(i) : i \in 0..31}
KREGS == {"K" \o ToString(i) : i \in 0..7}
Ctx == A!Contexts[ci]
Region(r) == Ctx.regions[r]

\* machine state threaded through one instruction
S0 == [g |-> g, vr |-> vr, kr |-> kr, fl |-> fl, acc |-> acc, errs |-> errs]
Err(s, line, msg) == [s EXCEPT !.errs = @ \cup {msg \o " (line " \o ToString(line) \o ")"}]

Min(a, b) == IF a < b THEN a ELSE b
Max(a, b) == IF a > b THEN a ELSE b
Touch(s, r, off, w, wr) ==
  LET o == s.acc[r]
      n == IF wr THEN <<o[1], o[2], (IF o[3] < 0 THEN off ELSE Min(o[3], off)), Max(o[4], off + w)>>
           ELSE <<(IF o[1] < 0 THEN off ELSE Min(o[1], off)), Max(o[2], off + w), o[3], o[4]>>
  IN [s EXCEPT !.acc[r] = n]

\* memory access through base value b at displacement d, width w; returns <<value, state>>
Access(s, b, d, w, wr, line) ==
  IF w = 0 THEN <<Unk, s>>
  ELSE IF b.t = "sec" THEN <<Sec, Err(s, line, "C09 secret-dependent address")>>
  ELSE IF b.t # "ptr" THEN <<Unk, Err(s, line, "C11 memory access through a non-pointer (" \o b.t \o ")")>>
  ELSE IF b.r \notin DOMAIN Ctx.regions THEN <<Unk, Err(s, line, "C11 access to unknown region " \o b.r)>>
  ELSE LET rg == Region(b.r)
           off == b.v + d
           s1 == IF off < 0 \/ off + w > rg.size
                 THEN Err(s, line, "C11 out-of-bounds " \o (IF wr THEN "write" ELSE "read") \o " of " \o b.r
                                   \o " at [" \o ToString(off) \o "," \o ToString(off + w) \o ") size " \o ToString(rg.size))
                 ELSE s
           s2 == IF wr /\ ~rg.wr THEN Err(s1, line, "C10 store into read-only region " \o b.r) ELSE s1
       IN <<IF rg.sec THEN Sec ELSE Unk, Touch(s2, b.r, off, w, wr)>>

\* effective base of a memory operand disp(BASE)(INDEX*SCALE): a secret index makes the address secret
Idx(x, sc) == IF x.t = "pub" THEN Pub(x.v * sc) ELSE IF x.t = "sec" THEN Sec ELSE IF x.t = "undef" THEN Undef ELSE Unk
MBase(s, o) ==
  IF o.x = "" THEN s.g[o.r]
  ELSE LET b == s.g[o.r]
           i == Idx(s.g[o.x], o.sc)
       IN IF b.t = "sec" \/ i.t = "sec" THEN Sec
          ELSE IF b.t = "ptr" /\ i.t = "pub" THEN Ptr(b.r, b.v + i.v)
          ELSE IF b.t = "pub" /\ i.t = "ptr" /\ o.sc = 1 THEN Ptr(i.r, b.v + i.v)
          ELSE IF b.t = "pub" /\ i.t = "pub" THEN Pub(b.v + i.v)
          ELSE Unk
LowByte(x) == IF x.t = "pub" THEN Pub(x.v % 256) ELSE IF x.t = "ptr" THEN Unk ELSE x
VecVal(t) == IF t = "sec" THEN Sec ELSE IF t = "pub" THEN Unk ELSE Undef
Taint(x) == IF x.t = "sec" THEN "sec" ELSE IF x.t = "undef" THEN "undef" ELSE "pub"
JoinT(a, b) == IF a = "sec" \/ b = "sec" THEN "sec" ELSE IF a = "undef" \/ b = "undef" THEN "undef" ELSE "pub"

Read(s, o, w, line) ==
  CASE o.k = "i" -> <<Pub(o.v), s>>
    [] o.k = "r" -> <<s.g[o.r], s>>
    [] o.k = "rb" -> <<LowByte(s.g[o.r]), s>>
    [] o.k = "kr" -> <<s.kr[o.r], s>>
    [] o.k = "v" -> <<VecVal(s.vr[o.r]), s>>
    [] o.k = "fp" -> IF o.v \in DOMAIN Ctx.slots THEN <<Ctx.slots[o.v], s>>
                     ELSE <<Unk, Err(s, line, "C11 read of an argument slot that does not exist")>>
    [] o.k = "m" -> Access(s, MBase(s, o), o.v, w, FALSE, line)
    [] o.k = "sb" -> <<Ptr(o.r, o.v), s>>
    [] OTHER -> <<Undef, s>>

Merge(old, new, w) ==     \* partial register write (w < 4 bytes keeps the upper part)
  IF w >= 4 THEN new
  ELSE IF old.t = "pub" /\ new.t = "pub"
       THEN LET m == IF w = 1 THEN 256 ELSE 65536 IN Pub((old.v - (old.v % m)) + (new.v % m))
       ELSE IF old.t = "sec" \/ new.t = "sec" THEN Sec ELSE Unk

Write(s, o, val, w, line) ==
  CASE o.k = "r" -> [s EXCEPT !.g[o.r] = Merge(@, val, w)]
    [] o.k = "rb" -> [s EXCEPT !.g[o.r] = Merge(@, val, 1)]
    [] o.k = "kr" -> [s EXCEPT !.kr[o.r] = val]
    [] o.k = "v" -> [s EXCEPT !.vr[o.r] = Taint(val)]
    [] o.k = "m" -> Access(s, MBase(s, o), o.v, w, TRUE, line)[2]
    [] o.k = "fp" -> IF o.v >= Ctx.retfrom THEN s ELSE Err(s, line, "C10 store into an argument slot")
    [] OTHER -> Err(s, line, "unsupported destination")

\* integer / pointer arithmetic:  y fn= x
Alu(fn, y, x) ==
  IF y.t = "sec" \/ x.t = "sec" THEN Sec
  ELSE IF y.t = "undef" \/ x.t = "undef" THEN Undef
  ELSE IF y.t = "pub" /\ x.t = "pub"
       THEN CASE fn = "add" -> Pub(y.v + x.v)
              [] fn = "sub" -> Pub(y.v - x.v)
              [] fn = "and" -> IF y.v >= 0 /\ x.v >= 0 THEN Pub(y.v & x.v) ELSE Unk
              [] fn = "or"  -> IF y.v >= 0 /\ x.v >= 0 THEN Pub(y.v | x.v) ELSE Unk
              [] fn = "xor" -> IF y.v >= 0 /\ x.v >= 0 THEN Pub(y.v ^^ x.v) ELSE Unk
              [] fn = "shl" -> IF x.v >= 0 /\ x.v <= 20 /\ y.v >= 0 /\ y.v < 1024 THEN Pub(y.v * (2 ^ x.v)) ELSE Unk
              [] fn = "shr" -> IF y.v >= 0 /\ x.v < 31 THEN Pub(y.v \div (2 ^ x.v)) ELSE Unk
              [] OTHER -> Unk        \* rotates, multiplies, bit scans ...: a public value the machine does not compute
  ELSE IF y.t = "ptr" /\ x.t = "pub" /\ fn = "add" THEN Ptr(y.r, y.v + x.v)
  ELSE IF y.t = "ptr" /\ x.t = "pub" /\ fn = "sub" THEN Ptr(y.r, y.v - x.v)
  ELSE IF y.t = "pub" /\ x.t = "ptr" /\ fn = "add" THEN Ptr(x.r, y.v + x.v)
  ELSE IF y.t = "ptr" /\ x.t = "ptr" /\ fn = "sub" /\ y.r = x.r THEN Pub(y.v - x.v)
  ELSE Unk

Holds(cc, a, b) ==
  CASE cc = "lt" -> a < b [] cc = "le" -> a <= b [] cc = "gt" -> a > b
    [] cc = "ge" -> a >= b [] cc = "eq" -> a = b [] cc = "ne" -> a # b

BitLen(n) == LET RECURSIVE B(_, _)
                 B(v, k) == IF v = 0 THEN k ELSE B(v \div 2, k + 1)
             IN B(n, 0)

Commit(s, npc) ==
  /\ g' = s.g /\ vr' = s.vr /\ kr' = s.kr /\ fl' = s.fl /\ acc' = s.acc /\ errs' = s.errs
  /\ pc' = npc /\ steps' = steps + 1 /\ UNCHANGED ci

Init ==
  /\ ci \in 1..Len(A!Contexts)
  /\ pc = 1 /\ steps = 0 /\ nsb = 0 /\ errs = {}
  /\ g = [r \in GPRS |-> Undef]
  /\ vr = [r \in VREGS |-> "undef"]
  /\ kr = [r \in KREGS |-> Undef]
  /\ fl = [k |-> "none", a |-> Undef, b |-> Undef]
  /\ acc = [r \in DOMAIN A!Contexts[ci].regions |-> <<-1, 0, -1, 0>>]

\* trace-following mode (conformance with the CPU): when the context carries the PC trace that
\* `drv asmtrace` recorded from the real routine for the same lengths (as instruction indices),
\* every step of the machine must be the next recorded instruction, the recorded trace must end
\* exactly at the RET, and a data-dependent branch takes the recorded direction.
Tr == Ctx.trace
Following == Len(Tr) > 0
OnTrace == ~Following \/ (steps + 1 <= Len(Tr) /\ Tr[steps + 1] = pc)

Step ==
  /\ pc >= 1 /\ pc <= Len(A!Prog)
  /\ LET ins == A!Prog[pc]
         s == S0
         ln == ins.line
     IN IF ~OnTrace
        THEN Commit(Err(s, ln, "C09 the instruction sequence of the real CPU diverges from the abstract machine at step "
                               \o ToString(steps + 1)), 0) /\ UNCHANGED nsb
        ELSE IF steps >= A!MaxSteps
        THEN Commit(Err(s, ln, "no return within the step bound"), 0) /\ UNCHANGED nsb
        ELSE
        CASE ins.cl = "nop" -> Commit(s, pc + 1) /\ UNCHANGED nsb
          [] ins.cl = "ret" ->
               Commit(IF Following /\ steps + 1 # Len(Tr)
                      THEN Err(s, ln, "C09 the real CPU executed more instructions than the abstract machine") ELSE s, 0)
               /\ UNCHANGED nsb
          [] ins.cl = "jmp" -> Commit(s, ins.t) /\ UNCHANGED nsb
          [] ins.cl = "cmp" ->
               LET ra == Read(s, ins.a, ins.w, ln)
                   rb == Read(ra[2], ins.b, ins.w, ln)
               IN Commit([rb[2] EXCEPT !.fl = [k |-> "cmp", a |-> ra[1], b |-> rb[1]]], pc + 1) /\ UNCHANGED nsb
          [] ins.cl = "test" ->
               LET ra == Read(s, ins.a, ins.w, ln)
                   rb == Read(ra[2], ins.b, ins.w, ln)
                   same == ins.a.k = "r" /\ ins.b.k = "r" /\ ins.a.r = ins.b.r
                   res == IF same THEN ra[1] ELSE Alu("and", rb[1], ra[1])
               IN Commit([rb[2] EXCEPT !.fl = [k |-> "alu", a |-> res, b |-> Pub(0)]], pc + 1) /\ UNCHANGED nsb
          [] ins.cl = "jcc" ->
               LET a == s.fl.a  b == s.fl.b
               IN IF s.fl.k = "cmp" /\ a.t = "pub" /\ b.t = "pub"
                  THEN Commit(s, IF Holds(ins.fn, a.v, b.v) THEN ins.t ELSE pc + 1) /\ UNCHANGED nsb
                  ELSE IF s.fl.k = "cmp" /\ a.t = "ptr" /\ b.t = "ptr" /\ a.r = b.r
                  THEN Commit(s, IF Holds(ins.fn, a.v, b.v) THEN ins.t ELSE pc + 1) /\ UNCHANGED nsb
                  ELSE IF s.fl.k = "alu" /\ a.t = "pub" /\ ins.fn \in {"eq", "ne"}
                  THEN Commit(s, IF Holds(ins.fn, a.v, 0) THEN ins.t ELSE pc + 1) /\ UNCHANGED nsb
                  ELSE IF (s.fl.k \in {"cmp", "alu"}) /\ (a.t = "sec" \/ b.t = "sec")
                  THEN \* data-dependent decision: both outcomes are explored; only Ctx.secbr of them are permitted
                       /\ nsb' = nsb + 1
                       /\ LET over == nsb + 1 > Ctx.secbr
                              s1 == IF over THEN Err(s, ln, "C09 secret-dependent branch") ELSE s
                          IN IF over /\ ~Following
                             THEN Commit(s1, 0)      \* reported; the path ends here (a secret-dependent LOOP would never end)
                             ELSE IF Following /\ steps + 2 <= Len(Tr)
                             THEN Commit(s1, IF Tr[steps + 2] = ins.t THEN ins.t ELSE pc + 1)
                             ELSE \/ Commit(s1, ins.t) \/ Commit(s1, pc + 1)
                  ELSE Commit(Err(s, ln, "unsupported flags for a conditional branch (" \o s.fl.k \o "," \o a.t \o "," \o b.t \o ")"), 0)
                       /\ UNCHANGED nsb
          [] ins.cl = "lea" ->
               LET v == IF ins.a.k = "sb" THEN Ptr(ins.a.r, ins.a.v)
                        ELSE IF ins.a.k = "m" THEN Alu("add", MBase(s, ins.a), Pub(ins.a.v)) ELSE Unk
               IN Commit(Write(s, ins.b, v, 8, ln), pc + 1) /\ UNCHANGED nsb
          [] ins.cl = "mov" ->
               LET ra == Read(s, ins.a, ins.w, ln)
               IN Commit(Write(ra[2], ins.b, ra[1], ins.w, ln), pc + 1) /\ UNCHANGED nsb
          [] ins.cl = "alu" ->
               LET rx == Read(s, ins.a, ins.w, ln)
                   ry == Read(rx[2], ins.b, ins.w, ln)
                   same == ins.a.k = "r" /\ ins.b.k = "r" /\ ins.a.r = ins.b.r /\ ins.fn \in {"xor", "sub"}
                   res == IF same THEN Pub(0) ELSE Alu(ins.fn, ry[1], rx[1])
                   s2 == Write(ry[2], ins.b, res, ins.w, ln)
               IN Commit([s2 EXCEPT !.fl = [k |-> "alu", a |-> res, b |-> Pub(0)]], pc + 1) /\ UNCHANGED nsb
          [] ins.cl = "prefetch" ->   \* no architectural effect; the address it touches must not depend on secrets
               LET b == MBase(s, ins.a)
               IN Commit(IF b.t = "sec" THEN Err(s, ln, "C09 secret-dependent address") ELSE s, pc + 1) /\ UNCHANGED nsb
          [] ins.cl = "cmov" ->       \* CMOVcc / SETcc: pure data flow from the operands AND the flags
               LET ra == IF ins.a.k = "n" THEN <<Pub(0), s>> ELSE Read(s, ins.a, ins.w, ln)
                   rb == Read(ra[2], ins.b, ins.w, ln)
                   t == JoinT(JoinT(Taint(ra[1]), Taint(rb[1])),
                              IF s.fl.k = "none" THEN "undef" ELSE JoinT(Taint(s.fl.a), Taint(s.fl.b)))
                   val == IF t = "sec" THEN Sec ELSE IF t = "undef" THEN Undef ELSE Unk
               IN Commit(Write(rb[2], ins.b, val, ins.w, ln), pc + 1) /\ UNCHANGED nsb
          [] ins.cl = "vec" ->
               LET ra == Read(s, ins.a, ins.w, ln)
                   rc == IF ins.c.k = "n" THEN <<Unk, ra[2]>> ELSE Read(ra[2], ins.c, ins.w, ln)
                   zero == ins.a.k = "v" /\ ins.c.k = "v" /\ ins.a.r = ins.c.r /\ ins.fn \in {"VPXORD", "VPXORQ", "VEOR", "PXOR", "VPXOR"}
                   t == IF zero THEN "pub" ELSE JoinT(Taint(ra[1]), Taint(rc[1]))
                   val == IF t = "sec" THEN Sec ELSE IF t = "undef" THEN Undef ELSE Unk
                   s2 == IF t = "undef" THEN Err(rc[2], ln, "NOTE read of a register the routine has not written") ELSE rc[2]
               IN Commit(Write(s2, ins.b, val, ins.w, ln), pc + 1) /\ UNCHANGED nsb
          [] ins.cl = "vecmask" ->
               LET m == s.kr[ins.c.r]
               IN IF m.t = "sec"
                  THEN Commit(Err(s, ln, "C09 mask register is not a public constant"), 0) /\ UNCHANGED nsb
                  ELSE IF m.t # "pub"       \* a public mask whose value the machine did not compute (wide shifts ...)
                  THEN Commit(Err(s, ln, "unsupported: value of the mask register is not known to the machine"), 0) /\ UNCHANGED nsb
                  ELSE LET w == BitLen(m.v) * ins.t
                           ld == ins.a.k = "m"
                           ra == IF ld THEN Access(s, MBase(s, ins.a), ins.a.v, w, FALSE, ln) ELSE Read(s, ins.a, w, ln)
                       IN Commit(Write(ra[2], ins.b, ra[1], w, ln), pc + 1) /\ UNCHANGED nsb
          [] OTHER -> Commit(Err(s, ln, "unsupported instruction class " \o ins.cl), 0) /\ UNCHANGED nsb

Spec == Init /\ [][Step]_vars

\* the verdict of a finished behaviour is printed for vlib/asmcheck.py (pc = 0 after RET)
Report == (pc = 0) => PrintT(<<"ASMRESULT", Ctx.name, steps, errs, acc, nsb>>)
\* `-dump`-free trace of the executed pcs is not needed: steps is the path length
=============================================================================
