------------------------------ MODULE AddChain ------------------------------
(***************************************************************************)
(* Abstract interpretation of an extracted addition chain (C16): every     *)
(* register holds the EXPONENT e such that its value is x^e; squaring      *)
(* doubles the exponent, multiplication adds exponents.  Registers start   *)
(* undefined (<<"undef">>) except the input x = 1.  One spec step executes *)
(* one extracted instruction (a loop of n squarings is one instruction).   *)
(***************************************************************************)
EXTENDS Integers, Sequences
BN == INSTANCE BigNat
Undef == [def |-> FALSE, e |-> <<>>]
Val(e) == [def |-> TRUE, e |-> e]
IsDef(v) == v.def
RECURSIVE DoubleN(_, _)
DoubleN(e, n) == IF n = 0 THEN e ELSE DoubleN(BN!Add(e, e), n - 1)

\* register "#bad" becomes defined when an undefined register is read
InitRegs(temps) == [r \in {"z", "x", "#bad"} \cup temps |-> IF r = "x" THEN Val(<<1>>) ELSE Undef]
Bad(rf) == [rf EXCEPT !["#bad"] = Val(<<>>)]

Exec(rf, ins) ==
  IF ins.op = "sq"
  THEN IF IsDef(rf[ins.a]) THEN [rf EXCEPT ![ins.dst] = Val(DoubleN(rf[ins.a].e, ins.n))] ELSE Bad(rf)
  ELSE IF IsDef(rf[ins.a]) /\ IsDef(rf[ins.b]) THEN [rf EXCEPT ![ins.dst] = Val(BN!Add(rf[ins.a].e, rf[ins.b].e))]
       ELSE Bad(rf)
=============================================================================
