------------------------------- MODULE T_Leak -------------------------------
(***************************************************************************)
(* Trace specification for C08: leakage traces of the REAL binary          *)
(* (valgrind-lackey instruction + load/store address traces, cut to the    *)
(* call, scoped and normalised by harness/drv leakfilter) for the same     *)
(* public input and different secrets.                                     *)
(*  leak.pair, mode "same":    the two record sequences (symbol, item      *)
(*        count, digest of the items) are identical, and so are the item   *)
(*        sequences when present                                           *)
(*  leak.pair, mode "verdict": item sequences agree up to the final        *)
(*        verdict (a suffix of at most `slack` items may differ)           *)
(*  leak.schedule: the numbers of dynamic entries into the listed symbols  *)
(*        equal what the schedule models prescribe (comb parameters,       *)
(*        extracted addition-chain counts)                                 *)
(***************************************************************************)
EXTENDS Integers, Sequences, TLC
L == INSTANCE Leak
VARIABLES l, st, bad

Count(recs, name) == LET RECURSIVE C(_, _)
                         C(i, acc) == IF i > Len(recs) THEN acc
                                      ELSE C(i + 1, IF recs[i].sym = name THEN acc + 1 ELSE acc)
                     IN C(1, 0)

\* verdict mode: the two runs must enter the same scoped functions in the same order; every
\* segment must be identical, except that a segment of a verdict-returning function (and the
\* caller's instructions that follow it, which belong to the same segment) may differ in its
\* last `slack` items - the verdict branch itself
VerdictSyms == {"github.com/bilibili/smgo/utils.ConstantTimeCmp", "github.com/bilibili/smgo/sm2.TestPrivateKey",
                "crypto/subtle.ConstantTimeCompare", "main.main.func1"}
RECURSIVE SegsOK(_, _, _, _)
SegsOK(a, b, k, slack) ==
  IF k > Len(a.records) THEN k > Len(b.records)
  ELSE IF k > Len(b.records) THEN FALSE
  ELSE LET ra == a.records[k]  rb == b.records[k]
       IN /\ ra.sym = rb.sym
          /\ IF ra.sym \in VerdictSyms
             THEN L!EqualUpToVerdict(ra.it, rb.it, slack)       \* the filter keeps the items of these segments
             ELSE ra = rb
          /\ SegsOK(a, b, k + 1, slack)

Expect(s, ev) ==
  CASE ev.op = "leak.pair" ->
         IF ev.mode = "same"
         THEN [st |-> s,
               ok |-> ev.a.records = ev.b.records /\ ev.a.total = ev.b.total,
               why |-> "leak " \o ev.prim \o ": trace depends on the secret"]
         ELSE [st |-> s,
               ok |-> SegsOK(ev.a, ev.b, 1, ev.slack),
               why |-> "leak " \o ev.prim \o ": trace depends on the secret before the verdict"]
    \* C09, dynamic complement: instruction-address sequences of one assembly routine, single-stepped under
    \* ptrace, for the same lengths and different key / data bytes (mode "same": identical), or for an
    \* authentic and a refused message (mode "verdict": identical up to the verdict branch at the end)
    [] ev.op = "pc.pair" ->
         [st |-> s,
          ok |-> IF ev.mode = "same" THEN ev.ta = ev.tb
                 \* Open verifies, then decrypts: a refused call (tb) is the authentic one (ta) up to the verdict
                 \* branch and then returns - all but its last `slack` instructions are a prefix of ta
                 ELSE L!CommonPrefix(ev.ta, ev.tb, 1) >= Len(ev.tb) - ev.slack,
          why |-> "pc " \o ev.routine \o ": instruction sequence depends on the data"
                  \o (IF ev.mode = "same" THEN "" ELSE " before the verdict")]
    \* C09, dispatch of the Block interface: a call of Encrypt / Decrypt on the cipher NewCipher hands out, on a CPU
    \* where the accelerated path is selected, runs the one-block assembly kernel (a breakpoint at its entry is hit) -
    \* not the portable table-driven round function, whose memory addresses depend on key and data
    [] ev.op = "pc.entered" ->
         [st |-> s, ok |-> ev.entered,
          why |-> "pc " \o ev.call \o ": the accelerated path is available but the call never entered " \o ev.routine]
    [] ev.op = "leak.schedule" ->
         [st |-> s,
          ok |-> \A i \in 1..Len(ev.expect) : Count(ev.records, ev.expect[i].sym) = ev.expect[i].n,
          why |-> "leak " \o ev.prim \o ": executed schedule differs from the model's"]

InitSt == <<>>
TC == INSTANCE TraceCommon
Spec == TC!Spec
Done == TC!Done
Post == TC!Post
=============================================================================
