----------------------------- MODULE MC_AddChain -----------------------------
(***************************************************************************)
(* C16, extracted programs: TLC walks the two Fermat-inversion addition    *)
(* chains extracted from sm2/internal/fiat/addchain_sm2_64_*_inverse.go    *)
(* (module Extracted, generated from the current tree) at production size  *)
(* and checks that the final exponent is exactly p-2 respectively n-2,     *)
(* that no register is read before it is written, that the input x is      *)
(* never written, and that the operation counts equal the header comment.  *)
(***************************************************************************)
EXTENDS Integers, Sequences, TLC
X == INSTANCE Extracted
C == INSTANCE SM2Curve
AC == INSTANCE AddChain
BN == INSTANCE BigNat
VARIABLES which, pc, rf, nsq, nmul

Prog(w) == IF w = "p" THEN X!FieldChain ELSE X!ScalarChain
Temps(w) == IF w = "p" THEN X!FieldTemps ELSE X!ScalarTemps
Init == /\ which \in {"p", "n"} /\ pc = 1 /\ nsq = 0 /\ nmul = 0
        /\ rf = AC!InitRegs(Temps(which))
Step == /\ pc <= Len(Prog(which))
        /\ LET ins == Prog(which)[pc]
           IN /\ rf' = AC!Exec(rf, ins)
              /\ nsq' = nsq + (IF ins.op = "sq" THEN ins.n ELSE 0)
              /\ nmul' = nmul + (IF ins.op = "mul" THEN 1 ELSE 0)
        /\ pc' = pc + 1 /\ UNCHANGED which
Spec == Init /\ [][Step]_<<which, pc, rf, nsq, nmul>>

Modulus == IF which = "p" THEN C!P ELSE C!Nn
NoUndefRead == ~rf["#bad"].def
InputPreserved == rf["x"] = AC!Val(<<1>>)
OnlyKnownOps == \A i \in 1..Len(Prog(which)) : Prog(which)[i].op \in {"sq", "mul"} /\ Prog(which)[i].dst # "x"
ExponentRight ==
  pc = Len(Prog(which)) + 1 =>
    /\ rf["z"] = AC!Val(BN!Sub(Modulus, <<2>>))
    /\ nsq = (IF which = "p" THEN X!FieldDeclaredSquares ELSE X!ScalarDeclaredSquares)
    /\ nmul = (IF which = "p" THEN X!FieldDeclaredMultiplies ELSE X!ScalarDeclaredMultiplies)
=============================================================================
