-------------------------------- MODULE T_EC --------------------------------
(***************************************************************************)
(* Trace specification for the arithmetic layers under SM2:                *)
(*   C16  field / scalar-field operations = integers mod p / mod n         *)
(*   C15  point addition, doubling, negation, selection, encodings         *)
(*   C14  scalar multiplication = the integer multiple                     *)
(* Oracles: BigNat (integers), EC (affine group law, every special case    *)
(* explicit).  Points travel as projective triples of canonical 32-byte    *)
(* coordinates; a result must REPRESENT the right group element (any       *)
(* scaling) and satisfy the projective curve equation.                     *)
(***************************************************************************)
EXTENDS Integers, Sequences, TLC
C == INSTANCE SM2Curve
BN == INSTANCE BigNat
VARIABLES l, st, bad

B32(v) == BN!ToBytes(v, 32)
Md(ev) == IF ev.field = "p" THEN C!P ELSE C!Nn

\* ---- projective helpers
FMul(a, b) == BN!ModMul(a, b, C!P)
Affine(t) == IF BN!IsZero(t[3]) THEN C!E!Inf
             ELSE LET zi == BN!ModInv(t[3], C!P) IN <<FMul(t[1], zi), FMul(t[2], zi)>>
ValidProj(t) ==      \* a point of the curve in projective form (infinity = (0 : y : 0), y # 0)
  IF BN!IsZero(t[3]) THEN BN!IsZero(t[1]) /\ ~BN!IsZero(t[2])
  ELSE LET a == Affine(t) IN C!E!OnCurveXY(a[1], a[2])
Represents(t, pt) ==
  /\ Len(t) = 3 /\ \A i \in 1..3 : Len(t[i]) = 32 /\ BN!Lt(t[i], C!P)
  /\ IF C!E!IsInf(pt) THEN BN!IsZero(t[3]) /\ BN!IsZero(t[1]) /\ ~BN!IsZero(t[2])
     ELSE /\ ~BN!IsZero(t[3])
          /\ BN!Eq(t[1], FMul(pt[1], t[3])) /\ BN!Eq(t[2], FMul(pt[2], t[3]))
Enc(pt) == IF C!E!IsInf(pt) THEN <<0>> ELSE <<4>> \o B32(pt[1]) \o B32(pt[2])
\* SEC1 decoding as the property states it: infinity byte or 65-byte uncompressed, canonical, on curve
Decode(b) ==
  IF b = <<0>> THEN [ok |-> TRUE, pt |-> C!E!Inf]
  ELSE IF Len(b) = 65 /\ b[1] = 4
       THEN LET x == SubSeq(b, 2, 33) y == SubSeq(b, 34, 65)
            IN IF C!E!OnCurveXY(x, y) THEN [ok |-> TRUE, pt |-> <<BN!Norm(x), BN!Norm(y)>>]
               ELSE [ok |-> FALSE, pt |-> C!E!Inf]
       ELSE [ok |-> FALSE, pt |-> C!E!Inf]

RegsOK(s, regs) == \A x \in DOMAIN s : x \in DOMAIN regs /\ Represents(regs[x], s[x])

FieldExpect(ev) ==
  LET m == Md(ev)
      a == ev.a
      b == IF ev.alias \in {"rab", "ab"} THEN ev.a ELSE ev.b
  IN CASE ev.fn = "add" -> BN!ModAdd(a, b, m)
       [] ev.fn = "sub" -> BN!ModSub(a, b, m)
       [] ev.fn = "mul" -> BN!ModMul(a, b, m)
       [] ev.fn = "square" -> BN!ModMul(a, a, m)
       [] ev.fn = "opp" -> BN!ModSub(<<>>, a, m)
       [] ev.fn = "invert" -> BN!ModInv(a, m)
       [] ev.fn = "divstepinvert" -> BN!ModInv(a, m)
       [] ev.fn = "set" -> BN!Norm(a)
       [] ev.fn = "select" -> IF ev.cond = 1 THEN BN!Norm(a) ELSE BN!Norm(b)
       [] ev.fn = "one" -> <<1>>

Expect(s, ev) ==
  CASE ev.op = "fiat.op" ->
         LET exp == FieldExpect(ev)
             okInv == ev.fn \in {"invert", "divstepinvert"} =>      \* the defining property, checked independently of ModInv
                        (IF BN!IsZero(ev.a) THEN BN!IsZero(ev.out)
                         ELSE BN!ModMul(ev.a, ev.out, Md(ev)) = <<1>>)
             \* the internal representation is the canonical Montgomery form x * 2^256 mod m
             okRaw == ev.raw = B32(BN!ModMul(exp, <<1>> \o [i \in 1..32 |-> 0], Md(ev)))
         IN [st |-> s,
             ok |-> ev.panic = "" /\ ev.out = B32(exp) /\ ev.big = exp /\ BN!Lt(ev.out, Md(ev)) /\ okInv /\ okRaw,
             why |-> IF ev.out = B32(exp) /\ ~okRaw THEN "field " \o ev.field \o " " \o ev.fn \o ": non-canonical internal value"
                     ELSE "field " \o ev.field \o " " \o ev.fn \o ": value"]
    [] ev.op = "fiat.nonzero" ->      \* the generated limb tests: non-zero iff some limb is non-zero
         [st |-> s, ok |-> ev.panic = "" /\ ev.p_nz = ~BN!IsZero(ev.v) /\ ev.n_nz = ~BN!IsZero(ev.v),
          why |-> "field nonzero test"]
    [] ev.op = "fiat.pred" ->
         [st |-> s,
          ok |-> /\ ev.panic = ""
                 /\ ev.iszero = (IF BN!IsZero(ev.a) THEN 1 ELSE 0)
                 /\ ev.equal = (IF BN!Eq(ev.a, ev.b) THEN 1 ELSE 0),
          why |-> "field " \o ev.field \o " predicate"]
    [] ev.op = "fiat.setbytes" ->
         LET good == Len(ev.v) = 32 /\ BN!Lt(ev.v, Md(ev))
         IN [st |-> s,
             ok |-> /\ ev.panic = "" /\ ((ev.err = "") <=> good) /\ ev.v_after = ev.v
                    /\ IF good THEN ev.recv_after = ev.v /\ ~ev.ret_nil
                               ELSE ev.recv_after = ev.recv /\ ev.ret_nil,
             why |-> "field " \o ev.field \o " setbytes: canonical decoding"]
    [] ev.op = "fiat.multiselect" ->
         LET exp == IF ev.bits >= 1 /\ ev.bits <= Len(ev.table) THEN ev.table[ev.bits]
                    ELSE IF ev.fbcond = 0 THEN ev.fallback ELSE B32(<<>>)
         IN [st |-> s, ok |-> ev.panic = "" /\ ev.out = exp, why |-> "multiselect: selected entry"]
    [] ev.op = "ptm.new" ->
         \* point register machine: abstract state = register name -> the group element it holds
         LET s2 == [x \in (DOMAIN s) \cup {ev.r} |-> IF x = ev.r THEN Affine(ev.p1) ELSE s[x]]
         IN [st |-> s2, ok |-> ev.panic = "" /\ RegsOK(s2, ev.regs), why |-> "point registers: new"]
    [] ev.op = "ptm.op" ->
         LET a == s[ev.a]
             v == CASE ev.fn = "add" -> C!E!AddPts(a, s[ev.b])
                    [] ev.fn = "double" -> C!E!AddPts(a, a)
                    [] ev.fn = "negate" -> C!E!Neg(a)
                    [] ev.fn = "set" -> a
                    [] ev.fn = "select" -> IF ev.cond = 1 THEN a ELSE s[ev.b]
             s2 == [x \in (DOMAIN s) \cup {ev.dst} |-> IF x = ev.dst THEN v ELSE s[x]]
         IN \* EVERY register must still represent its value: an operation that leaves two points
            \* sharing storage, or modifies an operand, is exposed here or at a later step
            [st |-> s2, ok |-> ev.panic = "" /\ RegsOK(s2, ev.regs),
             why |-> IF ev.panic # "" THEN "point registers: panic"
                     ELSE IF ~Represents(ev.regs[ev.dst], v) THEN "point registers: result of " \o ev.fn
                     ELSE "point registers: another register changed (shared storage or modified operand) after " \o ev.fn]
    [] ev.op = "pt.add" ->
         LET p2 == IF ev.alias \in {"all", "p1=p2"} THEN ev.p1 ELSE ev.p2
             sum == C!E!AddPts(Affine(ev.p1), Affine(p2))
             okIn == ev.alias = "none" => (ev.p1_after = ev.p1 /\ ev.p2_after = ev.p2)
         IN [st |-> s, ok |-> ev.panic = "" /\ Represents(ev.out, sum) /\ ev.ret_is_q /\ okIn,
             why |-> "point add: group element"]
    [] ev.op = "pt.double" ->
         LET a == Affine(ev.p1)
         IN [st |-> s, ok |-> ev.panic = "" /\ Represents(ev.out, C!E!AddPts(a, a)), why |-> "point double: group element"]
    [] ev.op = "pt.negate" ->
         [st |-> s, ok |-> ev.panic = "" /\ Represents(ev.out, C!E!Neg(Affine(ev.p1))), why |-> "point negate: group element"]
    [] ev.op = "pt.select" ->
         [st |-> s, ok |-> ev.panic = "" /\ ev.out = (IF ev.cond = 1 THEN ev.p1 ELSE ev.p2), why |-> "point select"]
    [] ev.op = "pt.setbytes" ->
         LET d == Decode(ev.b)
         IN [st |-> s,
             ok |-> /\ ev.panic = "" /\ ((ev.err = "") <=> d.ok) /\ ev.b_after = ev.b
                    /\ IF d.ok THEN Represents(ev.recv_after, d.pt) /\ ~ev.ret_nil
                               ELSE ev.recv_after = ev.recv /\ ev.ret_nil,
             why |-> IF (ev.err = "") # d.ok THEN (IF d.ok THEN "point decode: valid encoding rejected"
                                                          ELSE "point decode: invalid encoding accepted")
                     ELSE "point decode: receiver"]
    [] ev.op = "pt.bytes" ->
         LET a == Affine(ev.p1)
             ax == IF C!E!IsInf(a) THEN <<>> ELSE BN!Norm(a[1])
         IN [st |-> s,
             ok |-> /\ ev.panic = "" /\ ev.safe = Enc(a) /\ ev.unsafe = Enc(a)
                    /\ ev.ax_safe = ax /\ ev.ax_unsafe = ax /\ ev.isinf = C!E!IsInf(a)
                    /\ ev.p_after = ev.p1
                    /\ Decode(ev.safe).ok /\ Decode(ev.safe).pt = (IF C!E!IsInf(a) THEN a ELSE <<BN!Norm(a[1]), BN!Norm(a[2])>>),
             why |-> IF ev.safe # ev.unsafe \/ ev.ax_safe # ev.ax_unsafe THEN "point encode: safe and fast conversions disagree"
                     ELSE "point encode: value"]
    [] ev.op = "sm.base" ->
         IF Len(ev.k) # 32
         THEN [st |-> s, ok |-> ev.panic = "" /\ ev.err # "", why |-> "base mult: length rule"]
         ELSE LET exp == C!E!ScalarMulBits(ev.k, C!S!G, 256)
              IN [st |-> s,
                  ok |-> ev.panic = "" /\ ev.err = "" /\ ev.out = Enc(exp) /\ Represents(ev.proj, exp) /\ ev.k_after = ev.k,
                  why |-> "base mult: [k]G"]
    [] ev.op = "sm.mult" ->
         LET exp == C!E!ScalarMulBits(ev.k, Affine(ev.p1), 8 * Len(ev.k))
         IN [st |-> s,
             ok |-> ev.panic = "" /\ ev.err = "" /\ ev.out = Enc(exp) /\ ev.k_after = ev.k /\ ev.p_after = ev.p1,
             why |-> "point mult: [k]P"]
    [] ev.op = "sm.mixed" ->
         LET exp == C!E!AddPts(C!E!ScalarMulBits(ev.g, C!S!G, 256), C!E!ScalarMulBits(ev.s, Affine(ev.p1), 256))
         IN [st |-> s,
             ok |-> /\ ev.panic = "" /\ ev.err = "" /\ ev.out = Enc(exp)
                    /\ ev.g_after = ev.g /\ ev.s_after = ev.s /\ ev.p_after = ev.p1,
             why |-> "mixed mult: [g]G + [s]P"]

InitSt == <<>>
TC == INSTANCE TraceCommon
Spec == TC!Spec
Done == TC!Done
Post == TC!Post
=============================================================================
