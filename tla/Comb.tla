-------------------------------- MODULE Comb --------------------------------
(***************************************************************************)
(* Implementation-shaped model (R2) of the fixed-base comb schedule of     *)
(* scalarBaseMult_SkipBitExtration (C14): scheme (w, sub, it, rem) with    *)
(* w * sub * it + rem = number of scalar bits.  Iteration i = it-1 .. 0    *)
(* doubles the accumulator once (except before the first) and adds, for    *)
(* each sub-table j, the entry selected by the w bits                      *)
(*     extractHigherBits(k, i + j*it + rem, w, sub*it),                    *)
(* whose bit b is scalar bit  b*(sub*it) + i + j*it + rem;  finally the    *)
(* low rem bits select from the remainder table.  Table entry (j, v) is    *)
(*     sum_{b in bits(v)} 2^(rem + j*it + b*sub*it) G   (make_table.go),   *)
(* remainder entry v is v G.                                               *)
(***************************************************************************)
EXTENDS Integers, Sequences, FiniteSets
BitIndex(i, j, b, it, sub, rem) == b * (sub * it) + i + j * it + rem
TableExp(j, b, it, sub, rem) == rem + j * it + b * sub * it
\* weight bookkeeping on exponents: a term added in iteration i is doubled i more times
Assignments(w, sub, it, rem) ==
  {<<BitIndex(i, j, b, it, sub, rem), TableExp(j, b, it, sub, rem) + i>> :
       i \in 0..(it - 1), j \in 0..(sub - 1), b \in 0..(w - 1)}
  \cup {<<r, r>> : r \in 0..(rem - 1)}
\* the schedule is right iff every scalar bit is used exactly once, with weight 2^bit
ScheduleOK(w, sub, it, rem, nbits) ==
  LET asg == Assignments(w, sub, it, rem)
  IN /\ w * sub * it + rem = nbits
     /\ Cardinality(asg) = nbits
     /\ {a[1] : a \in asg} = 0..(nbits - 1)
     /\ \A a \in asg : a[2] = a[1]
=============================================================================
