------------------------------- MODULE T_Conc -------------------------------
(* Trace specification for the batch-level facts of a concurrent run (C17):  *)
(* shared input buffers and package-level state are byte-identical before    *)
(* and after, and repeating a call concurrently reproduced its first answer. *)
(* (The per-call results are expanded into ordinary events and judged by the *)
(* sequential specifications T_GCM / T_SM4 / T_SM2 / T_SM3.)                 *)
EXTENDS Naturals, Sequences, TLC
VARIABLES l, st, bad
Expect(s, ev) ==
  CASE ev.op = "conc.summary" ->
         [st |-> s,
          ok |-> ev.panic = "" /\ ev.pool_unchanged /\ ev.pkg_unchanged /\ ev.unstable = 0 /\ ev.panics = 0
                 /\ ev.race_reports = 0,
          why |-> IF ~ev.pool_unchanged THEN "concurrent run: a shared input buffer was modified"
                  ELSE IF ~ev.pkg_unchanged THEN "concurrent run: package-level state was modified"
                  ELSE IF ev.race_reports # 0 THEN "concurrent run: data race reported by the race detector"
                  ELSE IF ev.panics # 0 THEN "concurrent run: a call panicked"
                  ELSE "concurrent run: a repeated call gave a different answer"]
InitSt == <<>>
TC == INSTANCE TraceCommon
Spec == TC!Spec
Done == TC!Done
Post == TC!Post
=============================================================================
