------------------------------ MODULE T_Tables ------------------------------
(***************************************************************************)
(* C18: every precomputed constant is recomputed by TLC from its published *)
(* derivation.  Events are dumps of the package-level tables (read through *)
(* the verif exports) and of the DATA blocks parsed from the .s files.     *)
(*  comb table entry (scheme (w,sub,it,rem), sub-table j, value v):        *)
(*      Montgomery form (x * 2^256 mod p) of the affine coordinates of     *)
(*      sum_{b in bits(v)} 2^(rem + j*it + b*sub*it) G                     *)
(*  remainder entry v: v G;   sbox = algebraic S-box;                      *)
(*  s_k[x] = L(sbox[x] << (24 - 8k));  ck, tt by formula;  fk, iv literal; *)
(*  GFNI matrices: AffineInv_AES(Post, PostC, Affine(Pre, PreC, x)) = S(x) *)
(*  for all 256 x with the SDM's definition of GF2P8AFFINEQB / INVQB.      *)
(***************************************************************************)
EXTENDS Integers, Sequences, TLC, Words
C == INSTANCE SM2Curve
BN == INSTANCE BigNat
S4 == INSTANCE SM4
S3 == INSTANCE SM3
VARIABLES l, st, bad

Schemes == << <<4, 2, 32, 0>>, <<5, 3, 17, 1>>, <<6, 3, 14, 4>>, <<7, 3, 12, 4>> >>
R256 == <<1>> \o Zeros(32)                   \* 2^256
Mont(v) == BN!ToBytes(BN!ModMul(v, R256, C!P), 32)
PowTwo(e) == <<Pow2(e % 8)>> \o Zeros(e \div 8)
BitSet(v, b) == (v \div Pow2(b)) % 2 = 1
CombScalar(sc, j, v) ==
  LET w == sc[1] sub == sc[2] it == sc[3] rem == sc[4]
      RECURSIVE S(_, _)
      S(b, acc) == IF b = w THEN acc
                   ELSE S(b + 1, IF BitSet(v, b) THEN BN!Add(acc, PowTwo(rem + j * it + b * sub * it)) ELSE acc)
  IN S(0, <<>>)
PointOK(x, y, k) == LET pt == C!E!ScalarMulBits(k, C!S!G, 256)
                    IN ~C!E!IsInf(pt) /\ x = Mont(pt[1]) /\ y = Mont(pt[2])

\* ---- GF(2^8) with an arbitrary reduction polynomial, and the GFNI affine instructions (Intel SDM)
XT(a, poly) == LET d == a * 2 IN IF d >= 256 THEN d ^^ poly ELSE d
RECURSIVE GMulP(_, _, _, _, _)
GMulP(a, b, poly, k, acc) == IF k = 8 THEN acc
                             ELSE GMulP(XT(a, poly), b, poly, k + 1, IF (b \div Pow2(k)) % 2 = 1 THEN acc ^^ a ELSE acc)
GInvP(a, poly) ==          \* a^254
  LET M(x, y) == GMulP(x, y, poly, 0, 0)
      a2 == M(a, a) a3 == M(a2, a) a6 == M(a3, a3) a7 == M(a6, a) a14 == M(a7, a7) a15 == M(a14, a)
      a30 == M(a15, a15) a31 == M(a30, a) a62 == M(a31, a31) a63 == M(a62, a) a126 == M(a63, a63) a127 == M(a126, a)
  IN M(a127, a127)
\* matrix given as its 8 memory bytes (little endian qword): qword byte k = m[k+1]
AffineByte(m, x, imm) ==
  LET RECURSIVE Bits(_, _)
      Bits(i, acc) == IF i = 8 THEN acc
                      ELSE Bits(i + 1, acc + Pow2(i) * ((S4!Parity(m[8 - i] & x) + ((imm \div Pow2(i)) % 2)) % 2))
  IN Bits(0, 0)
GfniSBox(pre, prec, post, postc, x) == AffineByte(post, GInvP(AffineByte(pre, x, prec), 283), postc)

Rev4(i) == ((i % 2) * 8) + (((i \div 2) % 2) * 4) + (((i \div 4) % 2) * 2) + ((i \div 8) % 2)
LEWord(m, i) == <<(m[i + 3] * 256) + m[i + 2], (m[i + 1] * 256) + m[i]>>     \* little-endian 32-bit word at 1-based i

Expect(s, ev) ==
  CASE ev.op = "tab.comb" ->
         LET sc == Schemes[ev.scheme + 1]
             n == Pow2(sc[1]) - 1
             okShape == ev.subtables = sc[2] /\ Len(ev.xs) = n /\ Len(ev.ys) = n /\ ev.coords = 2
             okVals == okShape /\ \A v \in 1..n : PointOK(ev.xs[v], ev.ys[v], CombScalar(sc, ev.j, v))
         IN [st |-> s, ok |-> ev.panic = "" /\ okShape /\ okVals,
             why |-> IF ~okShape THEN "comb table: shape" ELSE "comb table: entry value"]
    [] ev.op = "tab.rem" ->
         LET sc == Schemes[ev.scheme + 1]
             n == IF sc[4] >= 1 THEN Pow2(sc[4]) - 1 ELSE 0
             okShape == Len(ev.xs) = n /\ Len(ev.ys) = n /\ (ev.present <=> sc[4] >= 1)
             okVals == okShape /\ \A v \in 1..n : PointOK(ev.xs[v], ev.ys[v], BN!FromInt(v))
         IN [st |-> s, ok |-> ev.panic = "" /\ okShape /\ okVals,
             why |-> IF ~okShape THEN "remainder table: shape" ELSE "remainder table: entry value"]
    [] ev.op = "tab.sm4" ->
         LET okS == Len(ev.sbox) = 256 /\ \A x \in 0..255 : ev.sbox[x + 1] = S4!SBoxAlg(x)
             T(k, x) == S4!L(WShl(<<0, S4!SBoxAlg(x)>>, 24 - 8 * k))
             okT == \A x \in 0..255 : /\ ev.s0[x + 1] = T(0, x) /\ ev.s1[x + 1] = T(1, x)
                                      /\ ev.s2[x + 1] = T(2, x) /\ ev.s3[x + 1] = T(3, x)
             okC == Len(ev.ck) = 32 /\ \A i \in 0..31 : ev.ck[i + 1] = S4!CK(i)
             okF == ev.fk = S4!FK
         IN [st |-> s, ok |-> ev.panic = "" /\ okS /\ okT /\ okC /\ okF,
             why |-> IF ~okS THEN "sm4: sbox" ELSE IF ~okT THEN "sm4: T-tables" ELSE IF ~okC THEN "sm4: CK" ELSE "sm4: FK"]
    [] ev.op = "tab.sm3" ->
         [st |-> s,
          ok |-> ev.panic = "" /\ Len(ev.tt) = 64 /\ (\A j \in 0..63 : ev.tt[j + 1] = S3!TRot(j)) /\ ev.iv = S3!IV,
          why |-> IF ev.iv # S3!IV THEN "sm3: IV" ELSE "sm3: Tj rotations"]
    [] ev.op = "tab.fiat" ->
         \* constants inside the field code: the divstep precomputation is ((p+1)/2)^741 in Montgomery
         \* form (741 = (49*256+57) div 17 iterations), the Montgomery one is 2^256 mod p
         LET half == BN!Norm(BN!Mod(BN!Mul(BN!Add(C!P, <<1>>), BN!ModInv(<<2>>, C!P)), C!P))
             pc == BN!ModMul(BN!ModExp(half, BN!FromInt(741), C!P), R256, C!P)
         IN [st |-> s,
             ok |-> ev.panic = "" /\ ev.divstep_precomp = BN!ToBytes(pc, 32) /\ ev.one_raw = BN!ToBytes(BN!Mod(R256, C!P), 32),
             why |-> IF ev.divstep_precomp # BN!ToBytes(pc, 32) THEN "fiat: divstep precomputation constant"
                     ELSE "fiat: Montgomery one"]
    [] ev.op = "tab.curve" ->
         [st |-> s,
          ok |-> /\ ev.panic = "" /\ ev.b = C!B /\ ev.g = <<4>> \o C!Gx \o C!Gy /\ ev.n = C!Nn
                 /\ ev.z = C!A \o C!B \o C!Gx \o C!Gy /\ C!CurveOK(0),
          why |-> "curve parameters"]
    [] ev.op = "asm.amd64" ->
         LET okAff == \A x \in 0..255 : GfniSBox(ev.pre, ev.prec, ev.post, ev.postc, x) = S4!SBoxAlg(x)
             okFK == Len(ev.fk) = 16 /\ \A i \in 0..3 : LEWord(ev.fk, 4 * i + 1) = S4!FK[i + 1]
             okCK == Len(ev.ck) = 128 /\ \A i \in 0..31 : LEWord(ev.ck, 4 * i + 1) = S4!CK(i)
             okSh == /\ Len(ev.shuffle) = 16 /\ \A i \in 0..15 : ev.shuffle[i + 1] = 4 * (i \div 4) + 3 - (i % 4)
                     /\ Len(ev.shuffle1) = 16 /\ \A i \in 0..15 : ev.shuffle1[i + 1] = 8 * (i \div 8) + 7 - (i % 8)
                     /\ Len(ev.shuffle2) = 16 /\ \A i \in 0..15 : ev.shuffle2[i + 1] = 15 - i
             okMask == /\ ev.andmask = [i \in 1..16 |-> 15]
                       /\ Len(ev.lowermask) = 16 /\ \A i \in 0..15 : ev.lowermask[i + 1] = Rev4(i)
             okPoly == ev.gcmpoly = <<135>> \o Zeros(15)             \* x^7 + x^2 + x + 1
             okCtr == /\ Len(ev.ctr1) = 64 /\ \A j \in 0..3 : SubSeq(ev.ctr1, 16 * j + 1, 16 * j + 16) = Zeros(12) \o <<j + 1, 0, 0, 0>>
                      /\ Len(ev.ctr2) = 64 /\ \A j \in 0..3 : SubSeq(ev.ctr2, 16 * j + 1, 16 * j + 16) = Zeros(12) \o <<4, 0, 0, 0>>
         IN [st |-> s, ok |-> okAff /\ okFK /\ okCK /\ okSh /\ okMask /\ okPoly /\ okCtr,
             why |-> IF ~okAff THEN "asm amd64: GFNI affine matrices do not realise the S-box"
                     ELSE IF ~okFK \/ ~okCK THEN "asm amd64: FK/CK copy"
                     ELSE IF ~okPoly THEN "asm amd64: GHASH reduction polynomial"
                     ELSE IF ~okCtr THEN "asm amd64: counter increments" ELSE "asm amd64: shuffle/mask constants"]
    [] ev.op = "asm.arm64" ->
         LET okS == Len(ev.sbox) = 256 /\ \A x \in 0..255 : ev.sbox[x + 1] = S4!SBoxAlg(x)
             okFK == Len(ev.fk) = 16 /\ \A i \in 0..3 : LEWord(ev.fk, 4 * i + 1) = S4!FK[i + 1]
             okCK == Len(ev.ck) = 128 /\ \A i \in 0..31 : LEWord(ev.ck, 4 * i + 1) = S4!CK(i)
         IN [st |-> s, ok |-> okS /\ okFK /\ okCK,
             why |-> IF ~okS THEN "asm arm64: S-box copy" ELSE "asm arm64: FK/CK copy"]

    [] ev.op = "asm.arm64imm" ->
         \* Reduce: the low 64 bits of the GHASH polynomial x^128 + x^7 + x^2 + x + 1 (bits 7, 2, 1, 0 = 0x87), little
         \* endian, in both 64-bit lanes; CONST: 64 (the stride that splits the 256-byte S-box into four TBL tables)
         LET want(r) == IF r = "Reduce" THEN <<135, 0, 0, 0, 0, 0, 0, 0, 135, 0, 0, 0, 0, 0, 0, 0>>
                        ELSE [i \in 1..16 |-> 64]
             okAll == \A i \in 1..Len(ev.inits) : ev.inits[i].bytes = want(ev.inits[i].reg)
         IN [st |-> s, ok |-> okAll, why |-> "asm arm64: constant built from an instruction immediate"]

InitSt == <<>>
TC == INSTANCE TraceCommon
Spec == TC!Spec
Done == TC!Done
Post == TC!Post
=============================================================================
