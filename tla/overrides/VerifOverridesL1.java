import tlc2.overrides.ITLCOverrides;

/** Level-1 accelerators only (bit-level primitives and BigNat), used by the self-test of level 2. */
public class VerifOverridesL1 implements ITLCOverrides {
  @SuppressWarnings("rawtypes")
  public Class[] get() { return new Class[] { Accel.class }; }
}
