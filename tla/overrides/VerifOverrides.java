import tlc2.overrides.ITLCOverrides;

/** Registers the accelerator class with TLC (-Dtlc2.overrides.TLCOverrides=...:VerifOverrides). */
public class VerifOverrides implements ITLCOverrides {
  @SuppressWarnings("rawtypes")
  public Class[] get() { return new Class[] { Accel.class }; }
}
