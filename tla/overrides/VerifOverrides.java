import tlc2.overrides.ITLCOverrides;

/** All accelerators (-Dtlc2.overrides.TLCOverrides=tlc2.overrides.TLCOverrides:VerifOverrides). */
public class VerifOverrides implements ITLCOverrides {
  @SuppressWarnings("rawtypes")
  public Class[] get() { return new Class[] { Accel.class, AccelEC.class }; }
}
