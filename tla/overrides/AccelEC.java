import java.math.BigInteger;
import tlc2.overrides.TLAPlusOperator;
import tlc2.value.impl.*;

/**
 * Level-2 accelerator: EC!ScalarMulOn in Java.  Its specification is the TLA+ double-and-add
 * of EC.tla; vlib/accel.py compares the two on samples with only the level-1 (BigNat)
 * accelerators active on the TLA+ side.
 */
public class AccelEC {
  static BigInteger big(Value v) { return Accel.big(v); }
  static Value bigV(BigInteger x) { return Accel.bigV(x); }
  static Value[] elems(Value v) { return Accel.elems(v); }
  static int iv(Value v) { return Accel.iv(v); }
  // ---------------------------------------------------------------- EC!ScalarMulOn (BigNat carrier only; affine double-and-add)
  static BigInteger[] ecAdd(BigInteger p, BigInteger a, BigInteger[] p1, BigInteger[] p2) {
    if (p1 == null) return p2;
    if (p2 == null) return p1;
    BigInteger lam;
    if (p1[0].equals(p2[0])) {
      if (!p1[1].equals(p2[1]) || p1[1].signum() == 0) return null;
      lam = p1[0].multiply(p1[0]).multiply(BigInteger.valueOf(3)).add(a).multiply(p1[1].shiftLeft(1).modInverse(p)).mod(p);
    } else {
      lam = p2[1].subtract(p1[1]).multiply(p2[0].subtract(p1[0]).mod(p).modInverse(p)).mod(p);
    }
    BigInteger x3 = lam.multiply(lam).subtract(p1[0]).subtract(p2[0]).mod(p);
    BigInteger y3 = lam.multiply(p1[0].subtract(x3)).subtract(p1[1]).mod(p);
    return new BigInteger[] { x3, y3 };
  }
  @TLAPlusOperator(identifier = "ScalarMulOn", module = "EC", warn = false)
  public static Value ecScalarMulOn(Value pv, Value av, Value k, Value pt, Value nbits) {
    BigInteger p = big(pv), a = big(av), kk = big(k);
    Value[] pe = elems(pt);
    BigInteger[] base = pe.length == 0 ? null : new BigInteger[] { big(pe[0]).mod(p), big(pe[1]).mod(p) };
    BigInteger[] acc = null;
    for (int i = iv(nbits) - 1; i >= 0; i--) {
      acc = ecAdd(p, a, acc, acc);
      if (kk.testBit(i)) acc = ecAdd(p, a, acc, base);
    }
    if (acc == null) return new TupleValue(new Value[0]);
    return new TupleValue(new Value[] { bigV(acc[0]), bigV(acc[1]) });
  }
}
