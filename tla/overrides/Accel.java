import java.math.BigInteger;
import tlc2.overrides.TLAPlusOperator;
import tlc2.value.impl.*;

/**
 * Accelerators for operators whose MEANING is their pure TLA+ definition in tla/*.tla.
 * TLC evaluates 32-bit-word and 256-bit code at tens of milliseconds per primitive; these
 * Java versions make production-size trace validation affordable.  Every check that uses
 * them first runs T_Accel twice - with and without this class - on boundary and seeded
 * random samples and requires identical output (vlib/accel.py); a mismatch is exit 2.
 */
public class Accel {
  // ---------------------------------------------------------------- helpers
  static Value[] elems(Value v) { return ((TupleValue) v.toTuple()).elems; }
  static int iv(Value v) { return ((IntValue) v).val; }
  static int word(Value v) { Value[] e = elems(v); return (iv(e[0]) << 16) | iv(e[1]); }
  static Value wordV(int w) { return new TupleValue(new Value[] { IntValue.gen(w >>> 16), IntValue.gen(w & 0xffff) }); }
  static byte[] bytes(Value v) { Value[] e = elems(v); byte[] b = new byte[e.length]; for (int i = 0; i < e.length; i++) b[i] = (byte) iv(e[i]); return b; }
  static Value bytesV(byte[] b) { Value[] e = new Value[b.length]; for (int i = 0; i < b.length; i++) e[i] = IntValue.gen(b[i] & 0xff); return new TupleValue(e); }
  static int rotl(int x, int k) { return (x << k) | (x >>> (32 - k)); }

  // ---------------------------------------------------------------- SM3!CF
  static int p0(int x) { return x ^ rotl(x, 9) ^ rotl(x, 17); }
  static int p1(int x) { return x ^ rotl(x, 15) ^ rotl(x, 23); }

  @TLAPlusOperator(identifier = "CF", module = "SM3", warn = false)
  public static Value sm3CF(Value V, Value B) {
    Value[] ve = elems(V);
    byte[] blk = bytes(B);
    int[] v = new int[8];
    for (int i = 0; i < 8; i++) v[i] = word(ve[i]);
    int[] w = new int[68];
    for (int i = 0; i < 16; i++) w[i] = ((blk[4*i] & 0xff) << 24) | ((blk[4*i+1] & 0xff) << 16) | ((blk[4*i+2] & 0xff) << 8) | (blk[4*i+3] & 0xff);
    for (int j = 16; j < 68; j++) w[j] = p1(w[j-16] ^ w[j-9] ^ rotl(w[j-3], 15)) ^ rotl(w[j-13], 7) ^ w[j-6];
    int a = v[0], b = v[1], c = v[2], d = v[3], e = v[4], f = v[5], g = v[6], h = v[7];
    for (int j = 0; j < 64; j++) {
      int t = j < 16 ? 0x79cc4519 : 0x7a879d8a;
      int a12 = rotl(a, 12);
      int ss1 = rotl(a12 + e + rotl(t, j % 32), 7);
      int ss2 = ss1 ^ a12;
      int ff = j < 16 ? (a ^ b ^ c) : ((a & b) | (a & c) | (b & c));
      int gg = j < 16 ? (e ^ f ^ g) : ((e & f) | (~e & g));
      int tt1 = ff + d + ss2 + (w[j] ^ w[j+4]);
      int tt2 = gg + h + ss1 + w[j];
      d = c; c = rotl(b, 9); b = a; a = tt1; h = g; g = rotl(f, 19); f = e; e = p0(tt2);
    }
    int[] r = { a ^ v[0], b ^ v[1], c ^ v[2], d ^ v[3], e ^ v[4], f ^ v[5], g ^ v[6], h ^ v[7] };
    Value[] out = new Value[8];
    for (int i = 0; i < 8; i++) out[i] = wordV(r[i]);
    return new TupleValue(out);
  }

  // ---------------------------------------------------------------- SM4
  static final int[] SBOX = new int[256];
  static {
    // algebraic S-box: S(x) = A*Inv(A*x + C) + C over GF(2^8) mod 0x1F5 (same derivation as SM4.tla)
    int[] mask = new int[8];
    String[] rows = { "11100101", "11110010", "01111001", "10111100", "01011110", "00101111", "10010111", "11001011" };
    for (int i = 0; i < 8; i++) for (int j = 0; j < 8; j++) if (rows[i].charAt(j) == '1') mask[i] |= 1 << j;
    for (int x = 0; x < 256; x++) {
      int y = amul(mask, x) ^ 0xD3;
      int inv = 0;
      if (y != 0) for (int c = 1; c < 256; c++) if (gmul(y, c) == 1) { inv = c; break; }
      SBOX[x] = amul(mask, inv) ^ 0xD3;
    }
  }
  static int gmul(int a, int b) { int r = 0; while (b != 0) { if ((b & 1) != 0) r ^= a; a <<= 1; if ((a & 0x100) != 0) a ^= 0x1F5; b >>= 1; } return r; }
  static int amul(int[] mask, int x) { int o = 0; for (int i = 0; i < 8; i++) o |= (Integer.bitCount(mask[i] & x) & 1) << i; return o; }
  static int tau(int a) { return (SBOX[a >>> 24] << 24) | (SBOX[(a >>> 16) & 0xff] << 16) | (SBOX[(a >>> 8) & 0xff] << 8) | SBOX[a & 0xff]; }
  static int tT(int a) { int b = tau(a); return b ^ rotl(b, 2) ^ rotl(b, 10) ^ rotl(b, 18) ^ rotl(b, 24); }
  static int tP(int a) { int b = tau(a); return b ^ rotl(b, 13) ^ rotl(b, 23); }
  static int be32(byte[] b, int i) { return ((b[i] & 0xff) << 24) | ((b[i+1] & 0xff) << 16) | ((b[i+2] & 0xff) << 8) | (b[i+3] & 0xff); }

  @TLAPlusOperator(identifier = "RoundKeys", module = "SM4", warn = false)
  public static Value sm4RoundKeys(Value key) {
    byte[] k = bytes(key);
    int[] fk = { 0xa3b1bac6, 0x56aa3350, 0x677d9197, 0xb27022dc };
    int[] x = new int[36];
    for (int i = 0; i < 4; i++) x[i] = be32(k, 4 * i) ^ fk[i];
    Value[] out = new Value[32];
    for (int i = 0; i < 32; i++) {
      int ck = 0;
      for (int j = 0; j < 4; j++) ck = (ck << 8) | (((4 * i + j) * 7) & 0xff);
      x[i + 4] = x[i] ^ tP(x[i + 1] ^ x[i + 2] ^ x[i + 3] ^ ck);
      out[i] = wordV(x[i + 4]);
    }
    return new TupleValue(out);
  }

  @TLAPlusOperator(identifier = "CryptWithKeys", module = "SM4", warn = false)
  public static Value sm4Crypt(Value rk, Value blk) {
    Value[] re = elems(rk);
    byte[] b = bytes(blk);
    int[] x = new int[36];
    for (int i = 0; i < 4; i++) x[i] = be32(b, 4 * i);
    for (int i = 0; i < 32; i++) x[i + 4] = x[i] ^ tT(x[i + 1] ^ x[i + 2] ^ x[i + 3] ^ word(re[i]));
    byte[] o = new byte[16];
    for (int i = 0; i < 4; i++) { int w = x[35 - i]; o[4*i] = (byte) (w >>> 24); o[4*i+1] = (byte) (w >>> 16); o[4*i+2] = (byte) (w >>> 8); o[4*i+3] = (byte) w; }
    return bytesV(o);
  }

  // ---------------------------------------------------------------- GCM!LMul (eight 16-bit limbs, most significant first)
  @TLAPlusOperator(identifier = "LMul", module = "GCM", warn = false)
  public static Value gcmLMul(Value X, Value Y) {
    Value[] xe = elems(X), ye = elems(Y);
    long xh = 0, xl = 0, vh = 0, vl = 0;
    for (int i = 0; i < 4; i++) { xh = (xh << 16) | iv(xe[i]); vh = (vh << 16) | iv(ye[i]); }
    for (int i = 4; i < 8; i++) { xl = (xl << 16) | iv(xe[i]); vl = (vl << 16) | iv(ye[i]); }
    long zh = 0, zl = 0;
    for (int i = 0; i < 128; i++) {
      long bit = i < 64 ? (xh >>> (63 - i)) & 1 : (xl >>> (127 - i)) & 1;
      if (bit != 0) { zh ^= vh; zl ^= vl; }
      long lsb = vl & 1;
      vl = (vl >>> 1) | (vh << 63);
      vh = vh >>> 1;
      if (lsb != 0) vh ^= 0xE100000000000000L;
    }
    Value[] out = new Value[8];
    for (int i = 0; i < 4; i++) { out[i] = IntValue.gen((int) ((zh >>> (48 - 16 * i)) & 0xffff)); out[4 + i] = IntValue.gen((int) ((zl >>> (48 - 16 * i)) & 0xffff)); }
    return new TupleValue(out);
  }

  // ---------------------------------------------------------------- BigNat (big-endian byte tuples, results normalised)
  static BigInteger big(Value v) { byte[] b = bytes(v); return b.length == 0 ? BigInteger.ZERO : new BigInteger(1, b); }
  static Value bigV(BigInteger x) {
    if (x.signum() == 0) return new TupleValue(new Value[0]);
    byte[] b = x.toByteArray();
    int off = (b[0] == 0) ? 1 : 0;
    Value[] e = new Value[b.length - off];
    for (int i = off; i < b.length; i++) e[i - off] = IntValue.gen(b[i] & 0xff);
    return new TupleValue(e);
  }
  @TLAPlusOperator(identifier = "Add", module = "BigNat", warn = false)
  public static Value bnAdd(Value a, Value b) { return bigV(big(a).add(big(b))); }
  @TLAPlusOperator(identifier = "Sub", module = "BigNat", warn = false)
  public static Value bnSub(Value a, Value b) { return bigV(big(a).subtract(big(b))); }
  @TLAPlusOperator(identifier = "Mul", module = "BigNat", warn = false)
  public static Value bnMul(Value a, Value b) { return bigV(big(a).multiply(big(b))); }
  @TLAPlusOperator(identifier = "Mod", module = "BigNat", warn = false)
  public static Value bnMod(Value a, Value m) { return bigV(big(a).mod(big(m))); }
  @TLAPlusOperator(identifier = "Cmp", module = "BigNat", warn = false)
  public static Value bnCmp(Value a, Value b) { return IntValue.gen(big(a).compareTo(big(b))); }
  @TLAPlusOperator(identifier = "ModAdd", module = "BigNat", warn = false)
  public static Value bnModAdd(Value a, Value b, Value m) { return bigV(big(a).add(big(b)).mod(big(m))); }
  @TLAPlusOperator(identifier = "ModSub", module = "BigNat", warn = false)
  public static Value bnModSub(Value a, Value b, Value m) { return bigV(big(a).subtract(big(b)).mod(big(m))); }
  @TLAPlusOperator(identifier = "ModMul", module = "BigNat", warn = false)
  public static Value bnModMul(Value a, Value b, Value m) { return bigV(big(a).multiply(big(b)).mod(big(m))); }
  @TLAPlusOperator(identifier = "ModExp", module = "BigNat", warn = false)
  public static Value bnModExp(Value a, Value e, Value m) { return bigV(big(a).modPow(big(e), big(m))); }
  @TLAPlusOperator(identifier = "ModInv", module = "BigNat", warn = false)
  public static Value bnModInv(Value a, Value m) {
    BigInteger mm = big(m), aa = big(a).mod(mm);
    return bigV(aa.signum() == 0 ? BigInteger.ZERO : aa.modPow(mm.subtract(BigInteger.TWO), mm));
  }

}
