------------------------------ MODULE MC_GcmToy ------------------------------
(***************************************************************************)
(* C06 / C07 design model: the implementation-shaped GCM of GcmKernels     *)
(* (counter lanes, kernel ladder 16/8/4/2/1 + staged tail, 4-way           *)
(* aggregated GHASH with a block threshold, hash-then-decrypt Open) equals *)
(* SP 800-38D (module GCMG - the very text that judges real executions in  *)
(* its 128-bit instance) for ALL text lengths 0..MaxText, aad lengths      *)
(* 0..MaxAad, IV lengths 1..MaxIV and keys, on a toy block:                *)
(*   block = 2 symbols of 2 bits, counter = the last symbol (wraps after 4 *)
(*   blocks, so every longer text wraps - in the middle of wide kernels),  *)
(*   GHASH over GF(2^4), fast-path IV of 1 symbol, 1-block length field.   *)
(* Also: Open(Seal(x)) = x, and Open agrees with the definition on every   *)
(* single-symbol modification of ciphertext or tag.                        *)
(***************************************************************************)
EXTENDS Naturals, Sequences, TLC, Bitwise
CONSTANTS MaxText, MaxAad, MaxIV
Val(b) == 4 * b[1] + b[2]
Blk2(v) == <<(v \div 4) % 4, v % 4>>
\* GF(2^4), x^4 + x + 1
XT(a) == LET d == a * 2 IN IF d >= 16 THEN d ^^ 19 ELSE d
RECURSIVE GM(_, _, _, _)
GM(a, b, k, acc) == IF k = 4 THEN acc ELSE GM(XT(a), b, k + 1, IF (b \div (2 ^ k)) % 2 = 1 THEN acc ^^ a ELSE acc)
FMulToy(x, y) == Blk2(GM(Val(x), Val(y), 0, 0))
\* toy block cipher: any function of (key, block) will do for counter mode
EKToy(rk, b) == Blk2((7 * Val(b) + 5 * rk + 3 + (Val(b) * Val(b))) % 16)
LenToy(a, c) == <<a % 4, c % 4>>
IVTailToy(n) == <<0, n % 4>>

G == INSTANCE GCMG WITH EK <- EKToy, BS <- 2, CS <- 1, Base <- 4, FMul <- FMulToy, LenBlock <- LenToy,
                        IVTail <- IVTailToy, StdIV <- 1
K == INSTANCE GcmKernels WITH EK <- EKToy, BS <- 2, CS <- 1, Base <- 4, FMul <- FMulToy, LenBlock <- LenToy,
                              IVTail <- IVTailToy, StdIV <- 1, Thresh <- 8

VARIABLES stage, rk, ivl, al, tl
Pattern(n, salt) == [i \in 1..n |-> (i * i + salt * i + salt) % 4]
Init == stage = 0 /\ rk = 0 /\ ivl = 1 /\ al = 0 /\ tl = 0
Pick1 == stage = 0 /\ stage' = 1 /\ rk' \in 0..3 /\ ivl' \in 1..MaxIV /\ UNCHANGED <<al, tl>>
Pick2 == stage = 1 /\ stage' = 2 /\ al' \in 0..MaxAad /\ tl' \in 0..MaxText /\ UNCHANGED <<rk, ivl>>
Next == Pick1 \/ Pick2
Spec == Init /\ [][Next]_<<stage, rk, ivl, al, tl>>

IV == Pattern(ivl, 1 + rk)
AAD == Pattern(al, 2)
PT == Pattern(tl, 3)
SealAgrees == stage = 2 => K!Seal(rk, IV, AAD, PT, 2) = G!Seal(rk, IV, AAD, PT, 2)
RoundTrip == stage = 2 => K!Open(rk, IV, AAD, G!Seal(rk, IV, AAD, PT, 2), 2) = [ok |-> TRUE, pt |-> PT]
\* the zero-aad shortcut used for lengths no materialised string can reach is the definition on all-zero aad
ZeroAadLemma == stage = 2 => G!SealZeroAad(rk, IV, al, PT, 2) = G!Seal(rk, IV, [i \in 1..al |-> 0], PT, 2)
ZeroIvLemma == stage = 2 => G!SealZeroIv(rk, ivl, AAD, PT, 2) = G!Seal(rk, [i \in 1..ivl |-> 0], AAD, PT, 2)
\* every single-symbol modification (ciphertext and tag): same verdict and plaintext as the definition
OpenAgrees ==
  (stage = 2 /\ tl <= 12) =>
    LET ct == G!Seal(rk, IV, AAD, PT, 2)
    IN \A i \in 1..Len(ct), d \in 1..3 :
         LET bad == [ct EXCEPT ![i] = (ct[i] + d) % 4]
         IN K!Open(rk, IV, AAD, bad, 2) = G!Open(rk, IV, AAD, bad, 2)
\* the lane arithmetic is the repeated increment of the definition
LanesAreInc == stage = 0 => \A v \in 0..15, i \in 0..17 :
   K!LaneAdd(Blk2(v), i) = (LET RECURSIVE R(_, _)
                                R(cb, k) == IF k = 0 THEN cb ELSE R(G!Inc(cb), k - 1)
                            IN R(Blk2(v), i))
=============================================================================
