---------------------------- MODULE TraceCommon ----------------------------
(***************************************************************************)
(* Generic trace-validation skeleton (R3, DESIGN.md section 3.1).          *)
(*                                                                         *)
(* The instantiating module supplies InitSt and Expect(st, ev), where      *)
(*   Expect(st, ev) = [st |-> next abstract state (from the SPEC, never    *)
(*                             from the log),                              *)
(*                     ok |-> every logged result equals the spec's,       *)
(*                     why |-> short reason when not ok]                   *)
(* The trace is ndjson, one event per line; a scenario starts with an      *)
(* event whose op is "scenario" (the TraceReset idiom): it resets st.      *)
(* Failures are collected in bad instead of stopping TLC, so one run lists *)
(* every failing scenario; the verdict is written by the POSTCONDITION.    *)
(***************************************************************************)
EXTENDS Naturals, Sequences, TLC, TLCExt, Json, IOUtils
CONSTANTS InitSt, Expect(_, _)
VARIABLES l, st, bad

\* The log is parsed once, in Init, and parked in TLC register 2 (a definition would be
\* re-evaluated - i.e. the file re-parsed - at every reference: measured 20 ms per event).
TraceLog == TLCGet(2)

Init == /\ TLCSet(2, ndJsonDeserialize(IOEnv.VERIF_TRACE))
        /\ l = 1 /\ st = InitSt /\ bad = <<>>

Step == /\ l <= Len(TraceLog)
        /\ LET ev == TraceLog[l]
               ex == IF ev.op = "scenario"
                     THEN [st |-> InitSt, ok |-> TRUE, why |-> ""]
                     \* a call during which the process died, or which did not return (recorded by the
                     \* executor's supervisor): no specification of this library allows that
                     ELSE IF "crashed" \in DOMAIN ev
                     THEN [st |-> st, ok |-> FALSE, why |-> "call did not return: " \o ev.crashed]
                     ELSE Expect(st, ev)
           IN /\ st' = ex.st
              /\ bad' = IF ex.ok THEN bad
                        ELSE Append(bad, [l |-> l, why |-> ex.why])
              /\ l' = l + 1

Spec == Init /\ [][Step]_<<l, st, bad>>

\* parks the verdict of the last state in a TLC register (single worker)
Done == (l = Len(TraceLog) + 1) => TLCSet(1, bad)

Post == JsonSerialize(IOEnv.VERIF_OUT,
          [n |-> Len(TraceLog), reached |-> TLCGet("stats").diameter - 1, bad |-> TLCGet(1)])
=============================================================================
