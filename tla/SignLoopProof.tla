--------------------------- MODULE SignLoopProof ---------------------------
(***************************************************************************)
(* TLAPS proof that IndInv is an inductive invariant of SignLoop for EVERY *)
(* draw unit (Unit any positive natural), every source behaviour and any   *)
(* number of retries.  Apalache discharges the same invariant for Unit in  *)
(* {1, 2, 32}; TLC explores it at Unit = 2, 3.                             *)
(***************************************************************************)
EXTENDS SignLoop, TLAPS

ASSUME UnitPos == Unit \in Nat /\ Unit >= 1

LEMMA InitInv == Init => IndInv
  BY UnitPos DEF Init, IndInv, TypeOK, NoOutputAfterFailure, ErrorIsFinal, Accounting

LEMMA ReadInv == ASSUME IndInv, NEW n \in 0..Unit, NEW e \in BOOLEAN, Read(n, e) PROVE IndInv'
  BY UnitPos DEF Read, IndInv, TypeOK, NoOutputAfterFailure, ErrorIsFinal, Accounting

LEMMA TestInv == ASSUME IndInv, NEW a \in BOOLEAN, Test(a) PROVE IndInv'
  <1>1 Unit * (tested + 1) = Unit * tested + Unit
    BY UnitPos DEF IndInv, TypeOK
  <1> QED
    BY <1>1, UnitPos DEF Test, IndInv, TypeOK, NoOutputAfterFailure, ErrorIsFinal, Accounting

LEMMA StutterInv == ASSUME IndInv, UNCHANGED vars PROVE IndInv'
  BY DEF vars, IndInv, TypeOK, NoOutputAfterFailure, ErrorIsFinal, Accounting

THEOREM Safety == Spec => []IndInv
  <1>1 IndInv /\ [Next]_vars => IndInv'
    BY ReadInv, TestInv, StutterInv DEF Next
  <1> QED
    BY InitInv, <1>1, PTL DEF Spec

COROLLARY C19 == Spec => [](NoOutputAfterFailure /\ ErrorIsFinal)
  BY Safety, PTL DEF IndInv
=============================================================================
