------------------------------- MODULE Words -------------------------------
(***************************************************************************)
(* Data representations shared by the definitional layer.                  *)
(*                                                                         *)
(* TLC integers are Java ints, so a 32-bit word does not fit.  A word is a *)
(* pair <<hi, lo>> of 16-bit halves; a byte string is a sequence of        *)
(* integers 0..255 (which is also the type the library's API uses).        *)
(* Every aggregate built in a loop is a tuple (never a lazily evaluated    *)
(* function constructor), see DESIGN.md section 10.                        *)
(***************************************************************************)
EXTENDS Naturals, Sequences, Bitwise, TLC

Byte == 0..255
Half == 0..65535
Word == Half \X Half

W(hi, lo) == <<hi, lo>>
WZero == <<0, 0>>

WXor(a, b) == <<a[1] ^^ b[1], a[2] ^^ b[2]>>
WAnd(a, b) == <<a[1] & b[1], a[2] & b[2]>>
WOr(a, b)  == <<a[1] | b[1], a[2] | b[2]>>
WNot(a)    == <<65535 - a[1], 65535 - a[2]>>
WXor3(a, b, c) == WXor(WXor(a, b), c)

WAdd(a, b) ==
  LET lo == a[2] + b[2]
      hi == a[1] + b[1] + (lo \div 65536)
  IN  <<hi % 65536, lo % 65536>>
WAdd3(a, b, c) == WAdd(WAdd(a, b), c)
WAdd4(a, b, c, d) == WAdd(WAdd(a, b), WAdd(c, d))

Pow2(k) == CASE k = 0 -> 1 [] k = 1 -> 2 [] k = 2 -> 4 [] k = 3 -> 8
             [] k = 4 -> 16 [] k = 5 -> 32 [] k = 6 -> 64 [] k = 7 -> 128
             [] k = 8 -> 256 [] k = 9 -> 512 [] k = 10 -> 1024 [] k = 11 -> 2048
             [] k = 12 -> 4096 [] k = 13 -> 8192 [] k = 14 -> 16384
             [] k = 15 -> 32768 [] k = 16 -> 65536

\* rotate left by k, 0 <= k < 32
WRotlSmall(a, k) ==   \* 0 <= k < 16
  IF k = 0 THEN a
  ELSE LET m == Pow2(k)  d == Pow2(16 - k)
       IN <<((a[1] * m) % 65536) + (a[2] \div d), ((a[2] * m) % 65536) + (a[1] \div d)>>
WRotl(a, k) ==
  LET kk == k % 32
  IN IF kk < 16 THEN WRotlSmall(a, kk) ELSE WRotlSmall(<<a[2], a[1]>>, kk - 16)

\* logical shifts (used by the 64-bit-lane portable SM4 model and GF(2^128))
WShl(a, k) ==
  IF k = 0 THEN a
  ELSE IF k < 16 THEN LET m == Pow2(k) d == Pow2(16 - k)
                      IN <<((a[1] * m) % 65536) + (a[2] \div d), (a[2] * m) % 65536>>
  ELSE IF k < 32 THEN <<(a[2] * Pow2(k - 16)) % 65536, 0>>
  ELSE WZero
WShr(a, k) ==
  IF k = 0 THEN a
  ELSE IF k < 16 THEN LET m == Pow2(16 - k) d == Pow2(k)
                      IN <<a[1] \div d, ((a[1] * m) % 65536) + (a[2] \div d)>>
  ELSE IF k < 32 THEN <<0, a[1] \div Pow2(k - 16)>>
  ELSE WZero

\* big-endian bytes <-> word
WFromBytes(b, i) == <<(b[i] * 256) + b[i + 1], (b[i + 2] * 256) + b[i + 3]>>
WToBytes(a) == <<a[1] \div 256, a[1] % 256, a[2] \div 256, a[2] % 256>>

\* byte-sequence helpers
RECURSIVE ZerosAcc(_, _)
ZerosAcc(k, acc) == IF k = 0 THEN acc ELSE ZerosAcc(k - 1, Append(acc, 0))
Zeros(k) == ZerosAcc(k, <<>>)

Slice(s, from, to) == SubSeq(s, from, to)     \* 1-based inclusive
Take(s, k) == SubSeq(s, 1, k)
Drop(s, k) == SubSeq(s, k + 1, Len(s))

RECURSIVE XorBytesAcc(_, _, _, _)
XorBytesAcc(a, b, i, acc) ==
  IF i > Len(a) THEN acc ELSE XorBytesAcc(a, b, i + 1, Append(acc, a[i] ^^ b[i]))
XorBytes(a, b) == XorBytesAcc(a, b, 1, <<>>)   \* Len(b) >= Len(a); result has Len(a)

RECURSIVE WordsToBytesAcc(_, _, _)
WordsToBytesAcc(ws, i, acc) ==
  IF i > Len(ws) THEN acc ELSE WordsToBytesAcc(ws, i + 1, acc \o WToBytes(ws[i]))
WordsToBytes(ws) == WordsToBytesAcc(ws, 1, <<>>)

\* big-endian encoding of a natural < 2^31 on k bytes
RECURSIVE NatToBytesAcc(_, _, _)
NatToBytesAcc(v, k, acc) ==
  IF k = 0 THEN acc ELSE NatToBytesAcc(v \div 256, k - 1, <<v % 256>> \o acc)
NatToBytes(v, k) == NatToBytesAcc(v, k, <<>>)
=============================================================================
