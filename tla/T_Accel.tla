------------------------------ MODULE T_Accel ------------------------------
(***************************************************************************)
(* Accelerator self-test.  Evaluates every operator that has a Java        *)
(* override (tla/overrides/Accel.java) on the sample inputs in VERIF_TRACE *)
(* and writes the results to VERIF_OUT.  vlib/accel.py runs this module    *)
(* twice - with and without the override class - and requires identical    *)
(* output: the pure TLA+ definitions are the meaning, Java only the speed. *)
(***************************************************************************)
EXTENDS Naturals, Sequences, TLC, TLCExt, Json, IOUtils
S3 == INSTANCE SM3
S4 == INSTANCE SM4
G == INSTANCE GCM WITH EK <- S4!CryptWithKeys
BN == INSTANCE BigNat
VARIABLES l, res
Samples == ndJsonDeserialize(IOEnv.VERIF_TRACE)

Eval(s) ==
  CASE s.f = "sm3cf"    -> S3!CF(s.v, s.b)
    [] s.f = "sm4rk"    -> S4!RoundKeys(s.key)
    [] s.f = "sm4crypt" -> S4!CryptWithKeys(s.rk, s.blk)
    [] s.f = "lmul"     -> G!LMul(s.x, s.y)
    [] s.f = "bn2"      -> << BN!Add(s.a, s.b), BN!Mul(s.a, s.b), BN!Cmp(s.a, s.b), BN!Mod(s.a, s.m),
                              BN!ModAdd(s.a, s.b, s.m), BN!ModSub(s.a, s.b, s.m), BN!ModMul(s.a, s.b, s.m),
                              IF BN!Cmp(s.a, s.b) >= 0 THEN BN!Sub(s.a, s.b) ELSE BN!Sub(s.b, s.a) >>
    [] s.f = "bnexp"    -> << BN!ModExp(s.a, s.e, s.m), BN!ModInv(s.a, s.m) >>
    [] s.f = "bninvok"  -> BN!ModMul(s.a, BN!ModInv(s.a, s.m), s.m)       \* must be 1 (accelerated run only)
    [] s.f = "ecmul"    -> LET E2 == INSTANCE EC WITH BigMode <- TRUE, P <- s.p, A <- s.a, B <- s.b
                           IN E2!ScalarMulBits(s.k, s.pt, s.nbits)

Init == l = 1 /\ res = <<>>
Step == l <= Len(Samples) /\ res' = Append(res, Eval(Samples[l])) /\ l' = l + 1
Spec == Init /\ [][Step]_<<l, res>>
Done == (l = Len(Samples) + 1) => TLCSet(1, res)
Post == JsonSerialize(IOEnv.VERIF_OUT, [n |-> Len(Samples), res |-> TLCGet(1)])
=============================================================================
