------------------------------ MODULE T_Accel ------------------------------
(***************************************************************************)
(* Accelerator self-test.  Evaluates every operator that has a Java        *)
(* override (tla/overrides/Accel.java) on the sample inputs in VERIF_TRACE *)
(* and writes the results to VERIF_OUT.  vlib/accel.py runs this module    *)
(* twice - with and without the override class - and requires identical    *)
(* output: the pure TLA+ definitions are the meaning, Java only the speed. *)
(***************************************************************************)
EXTENDS Naturals, Sequences, TLC, TLCExt, Json, IOUtils
S3 == INSTANCE SM3
S4 == INSTANCE SM4
G == INSTANCE GCM WITH EK <- S4!CryptWithKeys
VARIABLES l, res
Samples == ndJsonDeserialize(IOEnv.VERIF_TRACE)

Eval(s) ==
  CASE s.f = "sm3cf"    -> S3!CF(s.v, s.b)
    [] s.f = "sm4rk"    -> S4!RoundKeys(s.key)
    [] s.f = "sm4crypt" -> S4!CryptWithKeys(s.rk, s.blk)
    [] s.f = "lmul"     -> G!LMul(s.x, s.y)

Init == l = 1 /\ res = <<>>
Step == l <= Len(Samples) /\ res' = Append(res, Eval(Samples[l])) /\ l' = l + 1
Spec == Init /\ [][Step]_<<l, res>>
Done == (l = Len(Samples) + 1) => TLCSet(1, res)
Post == JsonSerialize(IOEnv.VERIF_OUT, [n |-> Len(Samples), res |-> TLCGet(1)])
=============================================================================
