SPECIFICATION Spec
CONSTANTS Procs = {g1, g2}
          Calls = 2
INVARIANTS NoRace Serializable SharedUntouched
CHECK_DEADLOCK FALSE
