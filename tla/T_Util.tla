------------------------------- MODULE T_Util -------------------------------
(* Trace specification for C20: recorded calls of utils.ConstantTimeCmp and *)
(* utils.DecomposeNAF must satisfy the definitions of module Util.          *)
EXTENDS Integers, Sequences, TLC
U == INSTANCE Util
VARIABLES l, st, bad

Expect(s, ev) ==
  CASE ev.op = "utils.cmp" ->
         [st |-> s,
          ok |-> /\ ev.panic = ""
                 /\ ev.res = U!LexCmp(ev.a, ev.b, ev.l)
                 /\ ev.a_after = ev.a /\ ev.b_after = ev.b,
          why |-> "cmp: result"]
    [] ev.op = "utils.naf" ->
         \* extra: the zeroed workspace was that much longer than n - the digits live in the first n places
         LET extra == IF "extra" \in DOMAIN ev THEN ev.extra ELSE 0
             okShape == /\ ev.panic = "" /\ Len(ev.out) = ev.n + extra /\ U!DigitsShapeOK(ev.out, ev.w)
                        /\ \A i \in (ev.n + 1)..Len(ev.out) : ev.out[i] = 0
             okValue == okShape /\ U!DigitsValueOK(ev.out, ev.s)
         IN [st |-> s, ok |-> okShape /\ okValue /\ ev.s_after = ev.s,
             why |-> IF ~okShape THEN "naf: digit shape" ELSE "naf: weighted sum"]

InitSt == <<>>
TC == INSTANCE TraceCommon
Spec == TC!Spec
Done == TC!Done
Post == TC!Post
=============================================================================
