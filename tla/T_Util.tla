------------------------------- MODULE T_Util -------------------------------
(* Trace specification for C20: recorded calls of utils.ConstantTimeCmp and *)
(* utils.DecomposeNAF must satisfy the definitions of module Util.          *)
EXTENDS Integers, Sequences, TLC
U == INSTANCE Util
VARIABLES l, st, bad

Expect(s, ev) ==
  CASE ev.op = "utils.cmp" ->
         [st |-> s,
          ok |-> /\ ev.panic = ""
                 /\ ev.res = U!LexCmp(ev.a, ev.b, ev.l)
                 /\ ev.a_after = ev.a /\ ev.b_after = ev.b,
          why |-> "cmp: result"]
    [] ev.op = "utils.naf" ->
         LET okShape == ev.panic = "" /\ Len(ev.out) = ev.n /\ U!DigitsShapeOK(ev.out, ev.w)
             okValue == okShape /\ U!DigitsValueOK(ev.out, ev.s)
         IN [st |-> s, ok |-> okShape /\ okValue /\ ev.s_after = ev.s,
             why |-> IF ~okShape THEN "naf: digit shape" ELSE "naf: weighted sum"]

InitSt == <<>>
TC == INSTANCE TraceCommon
Spec == TC!Spec
Done == TC!Done
Post == TC!Post
=============================================================================
