------------------------------- MODULE T_GCM -------------------------------
(***************************************************************************)
(* Trace specification for C06 / C07 / C10 (AEAD part): every recorded     *)
(* Seal and Open of a real cipher.AEAD over sm4 must be the step that      *)
(* SP 800-38D (module GCM over module SM4) prescribes, and must follow the *)
(* append / no-input-modification contract (when the event asks for the    *)
(* buffer aspects to be judged: ev.j = "b").                               *)
(* Abstract state: handle -> (round keys, nonce size, tag size).           *)
(***************************************************************************)
EXTENDS Naturals, Sequences, TLC, Words
S4 == INSTANCE SM4
G == INSTANCE GCM WITH EK <- S4!CryptWithKeys
VARIABLES l, st, bad

Put(s, h, o) == [x \in (DOMAIN s) \cup {h} |-> IF x = h THEN o ELSE s[x]]
Buf(ev) == ev.j = "b"
Inplace(ev) == ev.alias = "inplace"
Prefix(ev) == IF Inplace(ev) THEN <<>> ELSE ev.prefix

Expect(s, ev) ==
  CASE ev.op = "gcm.aead" ->
         LET good == Len(ev.key) = 16 /\ ev.noncesize >= 1 /\ ev.tagsize >= 12 /\ ev.tagsize <= 16
             ok1 == ev.panic = "" /\ ((ev.err = "") <=> good)
             ok2 == (good /\ ev.err = "") => (ev.ns = ev.noncesize /\ ev.ov = ev.tagsize)
             \* dispatch: where the accelerated path is available and asked for, the AEAD handed out IS the accelerated
             \* one (a cipher that no longer offers its GCM to crypto/cipher silently gets the library's generic,
             \* table-driven mode: same outputs, different - data-dependent - memory accesses)
             ok3 == (good /\ ev.err = "" /\ ev.path = "asm" /\ ev.asm_available) => ~ev.stdlib_mode
         IN [st |-> IF good /\ ev.err = ""
                    THEN Put(s, ev.h, [rk |-> S4!RoundKeys(ev.key), ts |-> ev.tagsize])
                    ELSE s,
             ok |-> ok1 /\ ok2 /\ ok3 /\ ev.key_after = ev.key,
             why |-> IF ok1 /\ ok2 /\ ~ok3 THEN "aead: accelerated path available but not selected" ELSE "aead: construction"]
    [] ev.op = "gcm.seal" ->
         LET o == s[ev.h]
             \* aad_zeros: the additional data is that many zero bytes (huge lengths; see GCMG!SealZeroAad)
             exp == Prefix(ev) \o (IF "nonce_zeros" \in DOMAIN ev THEN G!SealZeroIv(o.rk, ev.nonce_zeros, ev.aad, ev.pt, o.ts)
                                   ELSE IF "aad_zeros" \in DOMAIN ev THEN G!SealZeroAad(o.rk, ev.nonce, ev.aad_zeros, ev.pt, o.ts)
                                   ELSE G!Seal(o.rk, ev.nonce, ev.aad, ev.pt, o.ts))
             okV == ev.panic = "" /\ ev.out = exp
             okIn == /\ ev.nonce_after = ev.nonce /\ ev.aad_after = ev.aad
                     /\ (Inplace(ev) \/ ev.in_after = ev.pt)
             okRep == (ev.repeat /\ ~Inplace(ev)) => ev.out2 = exp
         IN [st |-> s, ok |-> okV /\ (Buf(ev) => (okIn /\ okRep)),
             why |-> IF ev.panic # "" THEN "seal: panic"
                     ELSE IF ~okV THEN (IF Len(ev.out) # Len(exp) THEN "seal: result length"
                                        ELSE IF SubSeq(ev.out, 1, Len(Prefix(ev))) # Prefix(ev) THEN "seal: dst prefix"
                                        ELSE IF SubSeq(ev.out, 1, Len(exp) - o.ts) # SubSeq(exp, 1, Len(exp) - o.ts)
                                             THEN "seal: ciphertext" ELSE "seal: tag")
                     ELSE IF ~okIn THEN "seal: input modified" ELSE "seal: repeat differs"]
    [] ev.op = "gcm.open" ->
         LET o == s[ev.h]
             r == G!Open(o.rk, ev.nonce, ev.aad, ev.ct, o.ts)
             okV == /\ ev.panic = ""
                    /\ IF r.ok THEN ev.err = "" /\ ev.out = Prefix(ev) \o r.pt
                               ELSE /\ ev.err # "" /\ ev.nil_on_err /\ ev.out = <<>>
                                    \* what the caller already had in dst is still there after a refused message
                                    /\ (Inplace(ev) \/ ev.prefix_after = ev.prefix)
                                    \* "no plaintext": what the call left in the caller's buffer (spare capacity of
                                    \* dst, or the input itself when opening in place) is not the decryption of the body
                                    /\ (ev.spill_clean \/ Len(ev.spill) < 4
                                        \/ ev.spill # G!Decrypted(o.rk, ev.nonce, ev.ct, o.ts))
             okIn == /\ ev.nonce_after = ev.nonce /\ ev.aad_after = ev.aad
                     /\ (Inplace(ev) \/ ev.in_after = ev.ct)
             okRep == (ev.repeat /\ ~Inplace(ev)) =>
                        IF r.ok THEN ev.err2 = "" /\ ev.out2 = Prefix(ev) \o r.pt
                                ELSE ev.err2 # "" /\ ev.nil_on_err2 /\ ev.out2 = <<>>
         IN [st |-> s, ok |-> okV /\ (Buf(ev) => (okIn /\ okRep)),
             why |-> IF ev.panic # "" THEN "open: panic"
                     ELSE IF ~okV THEN (IF r.ok THEN (IF ev.err # "" THEN "open: authentic message rejected"
                                                      ELSE "open: plaintext")
                                        ELSE IF ev.err = "" THEN "open: forgery accepted"
                                        ELSE "open: plaintext released on error")
                     ELSE IF ~okIn THEN "open: input modified" ELSE "open: repeat differs"]

InitSt == <<>>
TC == INSTANCE TraceCommon
Spec == TC!Spec
Done == TC!Done
Post == TC!Post
=============================================================================
