SPECIFICATION Spec
CONSTANTS P = 43
          A = 40
          B = 10
          Gx = 6
          Gy = 6
INVARIANTS Once ToyComb ToyWindow
CHECK_DEADLOCK FALSE
