SPECIFICATION Spec
CONSTANTS Procs = {g1, g2, g3}
          Calls = 2
INVARIANTS NoRace Serializable SharedUntouched
CHECK_DEADLOCK FALSE
