SPECIFICATION Spec
CONSTANTS MaxWrite = 9
          MaxLen = 27
          MaxOps = 3
INVARIANTS FillLevel LenIsCount BufIsTail SumIsDef EmitHist
CHECK_DEADLOCK FALSE
