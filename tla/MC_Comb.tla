------------------------------- MODULE MC_Comb -------------------------------
(***************************************************************************)
(* C14 models.                                                             *)
(* (a) At PRODUCTION parameters, for each of the four comb schemes of      *)
(*     sm2_curve.go and for the 4-bit window of ScalarMult: every scalar   *)
(*     bit is assigned exactly once to a table slot whose stated multiple  *)
(*     times the doublings still to come equals 2^bit (Comb!ScheduleOK).   *)
(* (b) End to end on the toy curve: the comb algorithm with tables built   *)
(*     from their definition, and the fixed 4-bit window algorithm, equal  *)
(*     the affine double-and-add for ALL 8-bit scalars (and all points).   *)
(***************************************************************************)
EXTENDS Integers, Sequences, FiniteSets, TLC
CONSTANTS P, A, B, Gx, Gy
BigMode == FALSE
E == INSTANCE EC
CB == INSTANCE Comb
G == <<Gx, Gy>>
VARIABLES stage, k, pt

Schemes == {<<4, 2, 32, 0>>, <<5, 3, 17, 1>>, <<6, 3, 14, 4>>, <<7, 3, 12, 4>>}
ProductionOK == \A s \in Schemes : CB!ScheduleOK(s[1], s[2], s[3], s[4], 256)
\* ScalarMult: byte t (0 = most significant) of an L-byte scalar: nibbles at bit 8(L-1-t)+4 and 8(L-1-t);
\* the accumulator is doubled 4 times per later nibble
WindowOK == \A L \in 1..40 :
   LET nibbles == 2 * L
       Weight(pos) == 4 * (nibbles - 1 - pos)         \* pos = 0 .. nibbles-1 in processing order
   IN {Weight(pos) : pos \in 0..(nibbles - 1)} = {4 * q : q \in 0..(nibbles - 1)}

\* ---- toy end-to-end
Bit(v, i) == (v \div (2 ^ i)) % 2
TableEntry(j, v, w, sub, it, rem) ==      \* sum over set bits b of v of 2^(rem + j*it + b*sub*it) G
  LET RECURSIVE S(_, _)
      S(b, acc) == IF b = w THEN acc
                   ELSE S(b + 1, IF Bit(v, b) = 1
                                 THEN E!AddPts(acc, E!ScalarMulBits(2 ^ CB!TableExp(j, b, it, sub, rem), G, 9))
                                 ELSE acc)
  IN S(0, E!Inf)
ExtractHigher(kk, idx, w, step) ==
  LET RECURSIVE X(_, _)
      X(b, acc) == IF b = w THEN acc ELSE X(b + 1, acc + Bit(kk, b * step + idx) * (2 ^ b))
  IN X(0, 0)
CombMul(kk, w, sub, it, rem) ==
  LET RECURSIVE Iter(_, _, _)
      Iter(i, acc, first) ==
        IF i < 0 THEN acc
        ELSE LET d == IF first THEN acc ELSE E!AddPts(acc, acc)
                 RECURSIVE Sub(_, _)
                 Sub(j, a) == IF j = sub THEN a
                              ELSE Sub(j + 1, E!AddPts(a, TableEntry(j, ExtractHigher(kk, i + j * it + rem, w, sub * it),
                                                                     w, sub, it, rem)))
             IN Iter(i - 1, Sub(0, d), FALSE)
      main == Iter(it - 1, E!Inf, TRUE)
  IN IF rem >= 1 THEN E!AddPts(main, E!ScalarMulBits(kk % (2 ^ rem), G, 9)) ELSE main
WindowMul(kk, p) ==       \* one byte: high nibble, 4 doublings, low nibble (first nibble without doublings)
  LET hi == kk \div 16  lo == kk % 16
      Mult(v) == E!ScalarMulBits(v, p, 5)
      D4(x) == E!AddPts(E!AddPts(E!AddPts(x, x), E!AddPts(x, x)), E!AddPts(E!AddPts(x, x), E!AddPts(x, x)))
      Dbl4(x) == LET d1 == E!AddPts(x, x) d2 == E!AddPts(d1, d1) d3 == E!AddPts(d2, d2) IN E!AddPts(d3, d3)
  IN E!AddPts(Dbl4(Mult(hi)), Mult(lo))

Pts == {<<x, y>> \in (0..(P - 1)) \X (0..(P - 1)) : E!OnCurveXY(x, y)} \cup {E!Inf}
Init == stage = 0 /\ k = 0 /\ pt = E!Inf
PickK == stage = 0 /\ stage' = 1 /\ k' \in 0..255 /\ UNCHANGED pt
PickP == stage = 1 /\ stage' = 2 /\ pt' \in Pts /\ UNCHANGED k
Next == PickK \/ PickP
Spec == Init /\ [][Next]_<<stage, k, pt>>

Once == stage = 0 => (ProductionOK /\ WindowOK /\ CB!ScheduleOK(2, 2, 2, 0, 8) /\ CB!ScheduleOK(2, 1, 3, 2, 8))
ToyComb == stage = 1 =>
   LET ref == E!ScalarMulBits(k, G, 8)
   IN CombMul(k, 2, 2, 2, 0) = ref /\ CombMul(k, 2, 1, 3, 2) = ref /\ CombMul(k, 1, 2, 3, 2) = ref
ToyWindow == stage = 2 => WindowMul(k, pt) = E!ScalarMulBits(k, pt, 8)
=============================================================================
