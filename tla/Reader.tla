------------------------------- MODULE Reader -------------------------------
(***************************************************************************)
(* Model of a (possibly failing, possibly short) randomness source and of  *)
(* io.ReadFull on top of it (C19, and the "bytes consumed" part of C02 and *)
(* C12).  A script is a sequence of steps [d |-> bytes, err |-> STRING]:   *)
(* a Read with room m delivers min(m, Len(d)) bytes of the current step;   *)
(* when the step's bytes are used up, its error (if any, "" = none) is     *)
(* returned together with the last bytes and the step is consumed.  After  *)
(* the script every Read returns (0, "EOF").                               *)
(***************************************************************************)
EXTENDS Naturals, Sequences

ReadCall(sc, m) ==
  IF sc = <<>> THEN [data |-> <<>>, err |-> "EOF", sc |-> <<>>]
  ELSE LET st == Head(sc)
       IN IF Len(st.d) <= m
          THEN [data |-> st.d, err |-> st.err, sc |-> Tail(sc)]
          ELSE [data |-> SubSeq(st.d, 1, m), err |-> "",
                sc |-> <<[d |-> SubSeq(st.d, m + 1, Len(st.d)), err |-> st.err]>> \o Tail(sc)]

\* io.ReadFull(buf[:want]): Read(buf[n:]) while n < want and no error;
\* succeeds iff the buffer is full (an error arriving with the last bytes is dropped).
\* log: one <<asked, delivered, err>> per Read call.
RECURSIVE ReadFullFrom(_, _, _, _)
ReadFullFrom(sc, want, got, log) ==
  IF Len(got) >= want THEN [ok |-> TRUE, data |-> got, sc |-> sc, log |-> log]
  ELSE LET c == ReadCall(sc, want - Len(got))
           got2 == got \o c.data
           log2 == Append(log, <<want - Len(got), Len(c.data), c.err>>)
       IN IF c.err # "" THEN [ok |-> Len(got2) >= want, data |-> got2, sc |-> c.sc, log |-> log2]
          ELSE ReadFullFrom(c.sc, want, got2, log2)
ReadFull(sc, want, log) == ReadFullFrom(sc, want, <<>>, log)

RECURSIVE SumDelivered(_, _, _)
SumDelivered(log, i, acc) == IF i > Len(log) THEN acc ELSE SumDelivered(log, i + 1, acc + log[i][2])
Delivered(log) == SumDelivered(log, 1, 0)
=============================================================================
