------------------------------- MODULE CmpNaf -------------------------------
(***************************************************************************)
(* Implementation-shaped layer (R2) for C20: the borrow-chain comparison   *)
(* and the right-to-left signed-window recoding *as coded* in              *)
(* utils/utils.go (getBit / getBits / carry / output index arithmetic),    *)
(* over 8-bit bytes.  MC_CmpNaf checks them against Util exhaustively.     *)
(***************************************************************************)
EXTENDS Integers, Sequences
U == INSTANCE Util

\* ---- ConstantTimeCmp: bits.Sub32 chain from the last byte to the first, OR of differences
RECURSIVE CmpChain(_, _, _, _, _)
CmpChain(a, b, i, borrow, diff) ==      \* i runs l..1 (1-based), mirrors for i := l-1; i >= 0
  IF i = 0 THEN <<borrow, diff>>
  ELSE LET raw == a[i] - b[i] - borrow      \* bits.Sub32: difference mod 2^32 is non-zero iff raw # 0
           nb  == IF raw < 0 THEN 1 ELSE 0
       IN CmpChain(a, b, i - 1, nb, IF raw # 0 THEN 1 ELSE diff)
CmpImpl(a, b, l) ==
  LET r == CmpChain(a, b, l, 0, 0)
  IN IF r[1] = 0 THEN (IF r[2] # 0 THEN 1 ELSE 0) ELSE -1

\* ---- DecomposeNAF(out, s, n, w): out has n digits (little-endian), s has (n-1) bits
GetBitRaw(s, idx) ==                         \* idx counts from the most significant bit of s[1]
  LET byteIdx == idx \div 8  bitIdx == 7 - (idx % 8)
  IN (s[byteIdx + 1] \div U!Pow2i(bitIdx)) % 2
GetBit(s, idx, carry) ==                     \* returns <<bit, carryOut>>
  LET raw == GetBitRaw(s, idx)
  IN IF ~carry THEN <<raw, FALSE>> ELSE IF raw = 0 THEN <<1, FALSE>> ELSE <<0, TRUE>>
GetBits(s, idx, w) ==                        \* w+1 bits whose least significant one is at idx
  LET byteIdx == idx \div 8
      bitIdx  == 7 - (idx % 8)
      mask    == U!Pow2i(w + 1)
      lo      == (s[byteIdx + 1] \div U!Pow2i(bitIdx)) % mask
  IN IF bitIdx + w + 1 > 7 /\ byteIdx > 0
     THEN LET bitsHi == bitIdx + w + 1 - 8
              hi == s[byteIdx] % U!Pow2i(bitsHi)
              comb == lo + hi * U!Pow2i(w + 1 - bitsHi)     \* OR of disjoint bit ranges
          IN comb
     ELSE lo

RECURSIVE NafLoop(_, _, _, _, _, _)
NafLoop(out, s, n, w, outIdx, carry) ==
  IF outIdx >= n - 1
  THEN IF carry THEN [out EXCEPT ![n] = 1] ELSE out
  ELSE LET bitIdx == n - outIdx - 1
           gb == GetBit(s, bitIdx - 1, carry)
       IN IF gb[1] = 1
          THEN LET d0 == GetBits(s, bitIdx - 1, w)
                   d1 == IF d0 % 2 = 0 /\ carry THEN d0 + 1 ELSE d0
                   big == d1 >= U!Pow2i(w)
                   d2 == IF big THEN d1 - U!Pow2i(w + 1) ELSE d1
               IN NafLoop([out EXCEPT ![outIdx + 1] = d2], s, n, w, outIdx + w + 1,
                          IF big THEN TRUE ELSE gb[2])
          ELSE NafLoop(out, s, n, w, outIdx + 1, gb[2])
NafImpl(s, n, w) == NafLoop([i \in 1..n |-> 0], s, n, w, 0, FALSE)
=============================================================================
