SPECIFICATION Spec
CONSTANTS MaxText = 40
          MaxAad = 12
          MaxIV = 3
INVARIANTS ZeroIvLemma ZeroAadLemma SealAgrees RoundTrip OpenAgrees LanesAreInc
CHECK_DEADLOCK FALSE
