---------------------------- MODULE MC_SM4Struct ----------------------------
(***************************************************************************)
(* Structure theorem behind "Decrypt inverts Encrypt" (C05): the 4-branch  *)
(* unbalanced Feistel network X_{i+4} = X_i + F(X_{i+1}+X_{i+2}+X_{i+3}+rk_i)*)
(* followed by the reversal R is inverted by the same network run with the *)
(* round keys in reverse order - for ANY round function F.  Checked        *)
(* exhaustively on 2-bit words: all 256 states x all 256 functions F x     *)
(* round-key sequences of length R over 0..3 (all of them, or those whose  *)
(* index is in KeySample).  + is XOR.                                      *)
(***************************************************************************)
EXTENDS Naturals, Sequences, TLC, Bitwise
CONSTANTS R, KeyStride
VARIABLES f, x, rk, stage
Wd == 0..3
Fs == [Wd -> Wd]
RECURSIVE Net(_, _, _, _)
Net(ff, s, keys, i) ==
  IF i > Len(keys) THEN <<s[4], s[3], s[2], s[1]>>
  ELSE Net(ff, <<s[2], s[3], s[4], s[1] ^^ ff[((s[2] ^^ s[3]) ^^ s[4]) ^^ keys[i]]>>, keys, i + 1)
Rev(s) == [i \in 1..Len(s) |-> s[Len(s) + 1 - i]]

Init == stage = 0 /\ f = <<>> /\ x = <<>> /\ rk = <<>>
PickF == stage = 0 /\ stage' = 1 /\ f' \in Fs /\ UNCHANGED <<x, rk>>
PickK == /\ stage = 1 /\ stage' = 2 /\ UNCHANGED <<f, x>>
         /\ \E k \in [1..R -> Wd] : /\ (k[1] + 4 * k[2] + 16 * k[R]) % KeyStride = 0
                                    /\ rk' = k
PickX == stage = 2 /\ stage' = 3 /\ x' \in [1..4 -> Wd] /\ UNCHANGED <<f, rk>>
Next == PickF \/ PickK \/ PickX
Spec == Init /\ [][Next]_<<f, x, rk, stage>>

Inverts == stage = 3 => Net(f, Net(f, x, rk, 1), Rev(rk), 1) = x
=============================================================================
