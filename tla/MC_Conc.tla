------------------------------- MODULE MC_Conc -------------------------------
(***************************************************************************)
(* C17: all interleavings of concurrent calls on shared objects.           *)
(* Each call kind is a sequence of micro-steps <<"r"|"w", location>> - its *)
(* FOOTPRINT.  For the assembly-backed calls the footprint is not written  *)
(* by hand: module ConcInput is generated at check time from the access    *)
(* summaries the abstract machine (AsmMachine) computes on the listing of  *)
(* the current tree (binding B3); regions are mapped to abstract locations *)
(*   "obj"     the shared cipher object (round keys)                       *)
(*   "in"      shared input buffers (key, nonce, aad, plaintext/ciphertext)*)
(*   "pkg"     package-level state                                         *)
(*   "out"     the caller's private destination                            *)
(*   "scratch" per-call scratch on the caller's stack                      *)
(* "out" and "scratch" are private per goroutine; the others are shared.   *)
(* Memory holds, per location, the identity of its last writer ("init" at  *)
(* the start).  A call returns what it would return when run alone iff     *)
(* every shared location it read still held "init".  TLC explores every    *)
(* interleaving of up to Calls calls on each of the goroutines.            *)
(***************************************************************************)
EXTENDS Naturals, Sequences, FiniteSets, TLC
CONSTANTS Procs, Calls
F == INSTANCE ConcInput          \* Footprints : [kind -> Seq(<<op, loc>>)], Kinds

Shared == {"obj", "in", "pkg"}
Loc(p, l) == IF l \in Shared THEN l ELSE l \o "@" \o ToString(p)        \* private locations are per goroutine
AllLocs == Shared \cup {l \o "@" \o ToString(p) : l \in {"out", "scratch"}, p \in Procs}

VARIABLES mem, prog, cur, stp, tainted, races
vars == <<mem, prog, cur, stp, tainted, races>>

Init == /\ mem = [l \in AllLocs |-> "init"]
        /\ prog \in [Procs -> [1..Calls -> F!Kinds]]
        /\ cur = [p \in Procs |-> 1]
        /\ stp = [p \in Procs |-> 1]
        /\ tainted = [p \in Procs |-> FALSE]       \* did the current/any call of p read a shared location another call wrote
        /\ races = {}

Running(p) == cur[p] <= Calls
NextStep(p) == F!Footprints[prog[p][cur[p]]][stp[p]]

\* a data race: p's access conflicts with the NEXT access of another goroutine (both enabled at once)
Conflicts(p) ==
  {<<p, q, Loc(p, NextStep(p)[2])>> : q \in {x \in Procs \ {p} : Running(x)
        /\ Loc(x, NextStep(x)[2]) = Loc(p, NextStep(p)[2])
        /\ (NextStep(x)[1] = "w" \/ NextStep(p)[1] = "w")}}

Do(p) ==
  /\ Running(p)
  /\ LET s == NextStep(p)
         l == Loc(p, s[2])
     IN /\ races' = races \cup Conflicts(p)
        /\ IF s[1] = "w"
           THEN mem' = [mem EXCEPT ![l] = "written by " \o ToString(p)] /\ UNCHANGED tainted
           ELSE /\ UNCHANGED mem
                /\ tainted' = [tainted EXCEPT ![p] = @ \/ (l \in Shared /\ mem[l] # "init")]
        /\ IF stp[p] = Len(F!Footprints[prog[p][cur[p]]])
           THEN cur' = [cur EXCEPT ![p] = @ + 1] /\ stp' = [stp EXCEPT ![p] = 1]
           ELSE stp' = [stp EXCEPT ![p] = @ + 1] /\ UNCHANGED cur
        /\ UNCHANGED prog
Next == \E p \in Procs : Do(p)
Spec == Init /\ [][Next]_vars

NoRace == races = {}
Serializable == \A p \in Procs : ~tainted[p]
SharedUntouched == \A l \in Shared : mem[l] = "init"
=============================================================================
