----------------------------- MODULE MC_SM2Toy -----------------------------
(***************************************************************************)
(* Exhaustive toy-curve model for C01/C02/C03/C12: module SM2 (the same    *)
(* text that judges 256-bit executions) instantiated with integers on a    *)
(* prime-order curve y^2 = x^3 - 3x + b over F_p, p, n small.              *)
(*   GroupOK      the curve has exactly n points, [n]G = O, the law is     *)
(*                closed and associative (so EC.tla really is a group law) *)
(*   SignVerifies for ALL d in [1,n-2], e in 0..EMax, k in 0..KMax: a      *)
(*                produced signature verifies under Pub(d)  (C01)          *)
(*   AltFormula   s = ((k + r) (1+d)^-1 - r) mod n, the form the code uses *)
(*   RulesOccur   every rejection rule fires for some (d, e, k) (the toy   *)
(*                group is small enough for r = 0, r + k = n, s = 0)       *)
(*   VerifyTight  for sampled keys: VerifyDef accepts (e, r, s) only if    *)
(*                some nonce produces exactly that signature  (C03)        *)
(***************************************************************************)
EXTENDS Integers, Sequences, FiniteSets, TLC
CONSTANTS P, A, B, Gx, Gy, Nn, NBits, EMax, KMax
BigMode == FALSE
S == INSTANCE SM2
E == INSTANCE EC
VARIABLES stage, d, e, k

Pts == {<<x, y>> \in (0..(P - 1)) \X (0..(P - 1)) : E!OnCurveXY(x, y)}
AllPts == Pts \cup {E!Inf}
GroupOK ==
  /\ Cardinality(AllPts) = Nn
  /\ E!OnCurveXY(Gx, Gy)
  /\ S!Mul(Nn, S!G) = E!Inf
  /\ \A a \in AllPts, b \in AllPts : E!AddPts(a, b) \in AllPts /\ E!AddPts(a, b) = E!AddPts(b, a)
  /\ \A a \in AllPts : E!AddPts(a, E!Neg(a)) = E!Inf /\ E!AddPts(a, E!Inf) = a
  /\ \A a \in AllPts, b \in AllPts, c \in AllPts :
        E!AddPts(E!AddPts(a, b), c) = E!AddPts(a, E!AddPts(b, c))
  /\ \A j \in 0..(2 * Nn) : S!Mul(j, S!G) = S!Mul(j % Nn, S!G)
RulesOccur ==
  \A w \in {"k_range", "r_zero", "rk_n", "s_zero", "ok"} :
     \E dd \in 1..(Nn - 2), ee \in 0..EMax, kk \in 0..KMax : S!Attempt(dd, ee, kk).why = w

Init == stage = 0 /\ d = 0 /\ e = 0 /\ k = 0
PickD == stage = 0 /\ stage' = 1 /\ d' \in 0..KMax /\ UNCHANGED <<e, k>>
PickE == stage = 1 /\ stage' = 2 /\ e' \in 0..EMax /\ UNCHANGED <<d, k>>
PickK == stage = 2 /\ stage' = 3 /\ k' \in 0..KMax /\ UNCHANGED <<d, e>>
Next == PickD \/ PickE \/ PickK
Spec == Init /\ [][Next]_<<stage, d, e, k>>

Once == stage = 0 => (GroupOK /\ RulesOccur)

SignVerifies ==
  stage = 3 =>
    LET sg == S!SignDef(d, e, <<k>>)
    IN IF ~S!ValidPriv(d) THEN sg.kind = "badkey" /\ sg.consumed = 0
       ELSE IF sg.kind = "sig"
            THEN /\ sg.consumed = 1
                 /\ LET pub == S!Pub(d) IN S!VerifyDef(pub[1], pub[2], e, sg.r, sg.s)
                 \* the form the implementation computes: ((k + r) (1+d)^-1 - r) mod n
                 /\ sg.s = (((k + sg.r) * S!N!NModInv(d + 1, Nn)) + Nn * Nn - sg.r) % Nn
            ELSE sg.kind = "exhausted" /\ S!Attempt(d, e, k).skip

\* soundness at toy size: whatever VerifyDef accepts is a signature some nonce produces
VerifyTight ==
  (stage = 2 /\ d \in 1..(Nn - 2) /\ d % 5 = 1) =>
    LET pub == S!Pub(d)
    IN \A r \in 0..KMax, s \in 0..KMax :
         S!VerifyDef(pub[1], pub[2], e, r, s) =>
           \E kk \in 1..(Nn - 1) : LET a == S!Attempt(d, e, kk) IN ~a.skip /\ a.r = r /\ a.s = s
=============================================================================
