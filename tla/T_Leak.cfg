SPECIFICATION Spec
INVARIANT Done
POSTCONDITION Post
CHECK_DEADLOCK FALSE
