-------------------------------- MODULE GCMG --------------------------------
(***************************************************************************)
(* NIST SP 800-38D Galois/Counter Mode, written once over an abstract      *)
(* block: a block is a sequence of BS symbols (bytes in production, 2-bit  *)
(* symbols in the toy instance), the last CS symbols of a counter block    *)
(* are the counter (base Base, wrapping), the field multiplication FMul on *)
(* blocks, the block cipher EK(rk, block) and the two length encodings are *)
(* parameters.  GCM.tla instantiates this text with 16-byte blocks and     *)
(* GF(2^128) (the oracle for recorded executions); MC_GcmToy instantiates  *)
(* the SAME text at toy size and checks the implementation-shaped kernel   *)
(* ladder (GcmKernels.tla) against it exhaustively.                        *)
(***************************************************************************)
EXTENDS Naturals, Sequences, Bitwise
CONSTANTS EK(_, _),        \* block cipher: (key object, block) -> block
          BS,              \* symbols per block
          CS,              \* counter symbols (at the end of the block)
          Base,            \* symbol base (256 / 4)
          FMul(_, _),      \* multiplication in the GHASH field, on blocks
          LenBlock(_, _),  \* (Len(aad), Len(ciphertext)) -> the final GHASH block
          IVTail(_),       \* Len(iv) -> what follows the padded IV in the J0 GHASH (0^(s+64) || [len]_64)
          StdIV            \* the IV length that takes the fast path (BS - CS ... 96 bits)

RECURSIVE ZerosAcc(_, _)
ZerosAcc(k, acc) == IF k = 0 THEN acc ELSE ZerosAcc(k - 1, Append(acc, 0))
Zeros(k) == ZerosAcc(k, <<>>)
ZeroBlock == Zeros(BS)
RECURSIVE XorAcc(_, _, _, _)
XorAcc(a, b, i, acc) == IF i > Len(a) THEN acc ELSE XorAcc(a, b, i + 1, Append(acc, a[i] ^^ b[i]))
XorS(a, b) == XorAcc(a, b, 1, <<>>)          \* Len(b) >= Len(a); result has Len(a)
PadToBlock(x) == x \o Zeros((BS - (Len(x) % BS)) % BS)

\* counter increment: the last CS symbols as a base-Base number, + 1, wrapping
RECURSIVE IncFrom(_, _)
IncFrom(cb, i) ==          \* i = position being incremented (from the end), carry = 1
  IF i <= BS - CS THEN cb
  ELSE IF cb[i] + 1 < Base THEN [cb EXCEPT ![i] = cb[i] + 1]
  ELSE IncFrom([cb EXCEPT ![i] = 0], i - 1)
Inc(cb) == IncFrom(cb, BS)

\* GHASH over a string whose length is a multiple of BS, from the accumulator y
RECURSIVE GHashFrom(_, _, _, _)
GHashFrom(h, x, i, y) ==
  IF i > Len(x) THEN y ELSE GHashFrom(h, x, i + BS, FMul(XorS(y, SubSeq(x, i, i + BS - 1)), h))
\* evaluated in chunks of 64 blocks (the same function; keeps TLC's recursion shallow and its evaluation
\* linear in Len(x) - measured: 4096 blocks 40 s as one recursion, 2048 blocks 9 s)
RECURSIVE GHashChunks(_, _, _, _)
GHashChunks(h, x, i, y) ==
  IF i > Len(x) THEN y
  ELSE LET last == IF i + 64 * BS - 1 <= Len(x) THEN i + 64 * BS - 1 ELSE Len(x)
       IN GHashChunks(h, x, i + 64 * BS, GHashFrom(h, SubSeq(x, i, last), 1, y))
GHash(h, x) == GHashChunks(h, x, 1, ZeroBlock)

\* GCTR with two-level accumulation (keeps TLC's evaluation linear in Len(x))
RECURSIVE CtrAcc(_, _, _, _, _, _)
CtrAcc(rk, cb, x, i, last, acc) ==
  IF i > last THEN <<acc, cb>>
  ELSE LET n == IF i + BS - 1 <= last THEN BS ELSE last - i + 1
       IN CtrAcc(rk, Inc(cb), x, i + BS, last, acc \o XorS(SubSeq(x, i, i + n - 1), EK(rk, cb)))
RECURSIVE CtrChunks(_, _, _, _, _)
CtrChunks(rk, cb, x, i, acc) ==
  IF i > Len(x) THEN acc
  ELSE LET last == IF i + 64 * BS - 1 <= Len(x) THEN i + 64 * BS - 1 ELSE Len(x)
           r == CtrAcc(rk, cb, x, i, last, <<>>)
       IN CtrChunks(rk, r[2], x, i + 64 * BS, acc \o r[1])
GCtr(rk, icb, x) == CtrChunks(rk, icb, x, 1, <<>>)

HashKey(rk) == EK(rk, ZeroBlock)
J0(H, iv) == IF Len(iv) = StdIV THEN iv \o Zeros(BS - StdIV - 1) \o <<1>>
             ELSE GHash(H, PadToBlock(iv) \o IVTail(Len(iv)))
Tag(rk, H, j0, aad, c, t) ==
  LET s == GHash(H, PadToBlock(aad) \o PadToBlock(c) \o LenBlock(Len(aad), Len(c)))
  IN SubSeq(XorS(s, EK(rk, j0)), 1, t)
Seal(rk, iv, aad, p, t) ==
  LET H == HashKey(rk)
      j0 == J0(H, iv)
      c == GCtr(rk, Inc(j0), p)
  IN c \o Tag(rk, H, j0, aad, c, t)
\* Seal for an additional data string of nz ZERO symbols, without materialising it: GHASH starts from the zero block
\* and a zero block leaves it there (Y' = (Y + 0) * H = 0 * H = 0), so the aad contributes only its length.
\* (MC_GcmToy checks SealZeroAad = Seal on all-zero aad at toy size; used for lengths at and beyond 2^29 bytes,
\* where the bit length no longer fits 32 bits, which no materialised string could reach in TLC.)
SealZeroAad(rk, iv, nz, p, t) ==
  LET H == HashKey(rk)
      j0 == J0(H, iv)
      c == GCtr(rk, Inc(j0), p)
      s == GHash(H, PadToBlock(c) \o LenBlock(nz, Len(c)))
  IN c \o SubSeq(XorS(s, EK(rk, j0)), 1, t)
\* The same for an IV of nz ZERO symbols (nz # StdIV): J0 = GHASH(0^nz padded || IVTail(nz)) = GHASH(IVTail(nz)).
SealZeroIv(rk, nz, aad, p, t) ==
  LET H == HashKey(rk)
      j0 == IF nz = StdIV THEN Zeros(BS - 1) \o <<1>> ELSE GHash(H, IVTail(nz))
      c == GCtr(rk, Inc(j0), p)
  IN c \o Tag(rk, H, j0, aad, c, t)
\* what counter-mode decryption of the body yields whether or not the tag matches (the bytes an
\* implementation that decrypts before it has verified would have produced)
Decrypted(rk, iv, ct, t) ==
  IF Len(ct) < t THEN <<>>
  ELSE GCtr(rk, Inc(J0(HashKey(rk), iv)), SubSeq(ct, 1, Len(ct) - t))
Open(rk, iv, aad, ct, t) ==
  IF Len(ct) < t THEN [ok |-> FALSE, pt |-> <<>>]
  ELSE LET H == HashKey(rk)
           j0 == J0(H, iv)
           c == SubSeq(ct, 1, Len(ct) - t)
           tg == SubSeq(ct, Len(ct) - t + 1, Len(ct))
       IN IF Tag(rk, H, j0, aad, c, t) = tg
          THEN [ok |-> TRUE, pt |-> GCtr(rk, Inc(j0), c)]
          ELSE [ok |-> FALSE, pt |-> <<>>]
=============================================================================
