SPECIFICATION Spec
CONSTANTS K = 3
          D = 16
          NB = 16
INVARIANTS CmpOK NafOK
CHECK_DEADLOCK FALSE
