SPECIFICATION Spec
CONSTANTS MaxWrite = 9
          MaxLen = 20
          MaxOps = 6
INVARIANTS LenAbstraction FillLevel LenIsCount BufIsTail SumIsDef PadShape
VIEW View
CHECK_DEADLOCK FALSE
