SPECIFICATION Spec
INVARIANTS NoUndefRead InputPreserved OnlyKnownOps ExponentRight
CHECK_DEADLOCK FALSE
