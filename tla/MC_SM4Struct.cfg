SPECIFICATION Spec
CONSTANTS R = 4
          KeyStride = 16
INVARIANT Inverts
CHECK_DEADLOCK FALSE
