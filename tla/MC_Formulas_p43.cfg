SPECIFICATION Spec
CONSTANTS P = 43
          B = 10
INVARIANTS AddComplete DoubleComplete CurveIsPrimeOrder
CHECK_DEADLOCK FALSE
