CONSTANTS Unit = 2  Syms = {0, 1}  MaxReads = 5
SPECIFICATION Spec
INVARIANTS Inv Refines PrefixRefines
CHECK_DEADLOCK FALSE
