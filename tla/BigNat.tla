------------------------------- MODULE BigNat -------------------------------
(***************************************************************************)
(* Natural numbers of arbitrary size as big-endian byte sequences          *)
(* (TLC integers are 32-bit).  Any number of leading zero bytes is allowed *)
(* on input; every operator returns the normalised form (no leading zero;  *)
(* zero is the empty sequence), so results can be compared with =.         *)
(* These schoolbook definitions are the meaning; tla/overrides/Accel.java  *)
(* provides java.math.BigInteger accelerators that are compared with them  *)
(* on every run (T_Accel).                                                 *)
(***************************************************************************)
EXTENDS Integers, Sequences

RECURSIVE NormFrom(_, _)
NormFrom(a, i) == IF i > Len(a) THEN <<>> ELSE IF a[i] # 0 THEN SubSeq(a, i, Len(a)) ELSE NormFrom(a, i + 1)
Norm(a) == NormFrom(a, 1)

Zero == <<>>
One == <<1>>
RECURSIVE FromIntAcc(_, _)
FromIntAcc(v, acc) == IF v = 0 THEN acc ELSE FromIntAcc(v \div 256, <<v % 256>> \o acc)
FromInt(v) == FromIntAcc(v, <<>>)
RECURSIVE ToIntAcc(_, _, _)
ToIntAcc(a, i, acc) == IF i > Len(a) THEN acc ELSE ToIntAcc(a, i + 1, acc * 256 + a[i])
ToInt(a) == ToIntAcc(Norm(a), 1, 0)              \* only for values < 2^31

RECURSIVE PadZeros(_, _)
PadZeros(k, acc) == IF k <= 0 THEN acc ELSE PadZeros(k - 1, <<0>> \o acc)
\* exactly k bytes, left-padded (the value must fit)
ToBytes(a, k) == LET n == Norm(a) IN PadZeros(k - Len(n), n)

\* ---- comparison: -1 / 0 / 1
RECURSIVE CmpFrom(_, _, _)
CmpFrom(a, b, i) ==
  IF i > Len(a) THEN 0
  ELSE IF a[i] < b[i] THEN -1 ELSE IF a[i] > b[i] THEN 1 ELSE CmpFrom(a, b, i + 1)
CmpN(a, b) ==     \* both normalised
  IF Len(a) < Len(b) THEN -1 ELSE IF Len(a) > Len(b) THEN 1 ELSE CmpFrom(a, b, 1)
Cmp(a, b) == CmpN(Norm(a), Norm(b))
Lt(a, b) == Cmp(a, b) = -1
Le(a, b) == Cmp(a, b) <= 0
Eq(a, b) == Cmp(a, b) = 0
IsZero(a) == Norm(a) = <<>>

\* ---- addition / subtraction, right to left with carry / borrow
RECURSIVE AddFrom(_, _, _, _, _)
AddFrom(a, b, i, carry, acc) ==     \* i = offset from the right end (0-based)
  IF i >= Len(a) /\ i >= Len(b)
  THEN IF carry = 0 THEN acc ELSE <<carry>> \o acc
  ELSE LET x == IF i < Len(a) THEN a[Len(a) - i] ELSE 0
           y == IF i < Len(b) THEN b[Len(b) - i] ELSE 0
           t == x + y + carry
       IN AddFrom(a, b, i + 1, t \div 256, <<t % 256>> \o acc)
Add(a, b) == Norm(AddFrom(a, b, 0, 0, <<>>))

RECURSIVE SubFrom(_, _, _, _, _)
SubFrom(a, b, i, borrow, acc) ==    \* requires a >= b
  IF i >= Len(a) THEN acc
  ELSE LET x == a[Len(a) - i]
           y == IF i < Len(b) THEN b[Len(b) - i] ELSE 0
           t == x - y - borrow
       IN IF t < 0 THEN SubFrom(a, b, i + 1, 1, <<t + 256>> \o acc)
                   ELSE SubFrom(a, b, i + 1, 0, <<t>> \o acc)
Sub(a, b) == LET na == Norm(a) nb == Norm(b) IN Norm(SubFrom(na, nb, 0, 0, <<>>))

\* ---- multiplication: Horner over the bytes of b
RECURSIVE MulSmallFrom(_, _, _, _, _)
MulSmallFrom(a, d, i, carry, acc) ==
  IF i >= Len(a) THEN (IF carry = 0 THEN acc ELSE <<carry>> \o acc)
  ELSE LET t == a[Len(a) - i] * d + carry
       IN MulSmallFrom(a, d, i + 1, t \div 256, <<t % 256>> \o acc)
MulSmall(a, d) == MulSmallFrom(a, d, 0, 0, <<>>)     \* 0 <= d <= 255
RECURSIVE MulFrom(_, _, _, _)
MulFrom(a, b, i, acc) ==
  IF i > Len(b) THEN acc
  ELSE MulFrom(a, b, i + 1, AddFrom(acc \o <<0>>, MulSmall(a, b[i]), 0, 0, <<>>))
Mul(a, b) == Norm(MulFrom(Norm(a), Norm(b), 1, <<>>))

\* ---- remainder: binary long division, most significant bit first
Double(r) == AddFrom(r, r, 0, 0, <<>>)
BitAt(byte, k) == (byte \div (CASE k = 0 -> 1 [] k = 1 -> 2 [] k = 2 -> 4 [] k = 3 -> 8 [] k = 4 -> 16
                                [] k = 5 -> 32 [] k = 6 -> 64 [] k = 7 -> 128)) % 2
RECURSIVE ModFrom(_, _, _, _, _)
ModFrom(a, m, i, k, r) ==       \* byte index i (1-based), bit k from 7 down to 0; r < m normalised
  IF i > Len(a) THEN r
  ELSE LET r2 == Norm(AddFrom(Double(r), <<BitAt(a[i], k)>>, 0, 0, <<>>))
           r3 == IF CmpN(r2, m) >= 0 THEN Norm(SubFrom(r2, m, 0, 0, <<>>)) ELSE r2
       IN IF k = 0 THEN ModFrom(a, m, i + 1, 7, r3) ELSE ModFrom(a, m, i, k - 1, r3)
Mod(a, m) == ModFrom(Norm(a), Norm(m), 1, 7, <<>>)        \* m # 0

ModAdd(a, b, m) == Mod(Add(a, b), m)
ModSub(a, b, m) == LET x == Mod(a, m) y == Mod(b, m)
                   IN IF CmpN(x, y) >= 0 THEN Sub(x, y) ELSE Sub(Add(x, m), y)
ModMul(a, b, m) == Mod(Mul(a, b), m)

\* ---- exponentiation, most significant bit first
RECURSIVE ModExpFrom(_, _, _, _, _, _)
ModExpFrom(a, e, m, i, k, acc) ==
  IF i > Len(e) THEN acc
  ELSE LET sq == ModMul(acc, acc, m)
           nx == IF BitAt(e[i], k) = 1 THEN ModMul(sq, a, m) ELSE sq
       IN IF k = 0 THEN ModExpFrom(a, e, m, i + 1, 7, nx) ELSE ModExpFrom(a, e, m, i, k - 1, nx)
ModExp(a, e, m) == ModExpFrom(Mod(a, m), Norm(e), m, 1, 7, Mod(One, m))

\* inverse modulo a PRIME m by Fermat (0 for 0): the x with a * x = 1 (mod m)
ModInv(a, m) == ModExp(a, Sub(m, <<2>>), m)

\* bit i (weight 2^i) and bit length
Bit(a, i) == LET n == Norm(a) byteFromEnd == i \div 8
             IN IF byteFromEnd >= Len(n) THEN 0 ELSE BitAt(n[Len(n) - byteFromEnd], i % 8)
=============================================================================
