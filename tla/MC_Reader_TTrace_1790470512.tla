---- MODULE MC_Reader_TTrace_1790470512 ----
EXTENDS Sequences, MC_Reader, TLCExt, Toolbox, Naturals, TLC

_expression ==
    LET MC_Reader_TEExpression == INSTANCE MC_Reader_TEExpression
    IN MC_Reader_TEExpression!expression
----

_trace ==
    LET MC_Reader_TETrace == INSTANCE MC_Reader_TETrace
    IN MC_Reader_TETrace!trace
----

_inv ==
    ~(
        TLCGet("level") = Len(_TETrace)
        /\
        stage = (1)
        /\
        script = (<<[d |-> <<0, 0>>, err |-> "EOF"], [d |-> <<0, 0>>, err |-> "EOF"]>>)
    )
----

_init ==
    /\ stage = _TETrace[1].stage
    /\ script = _TETrace[1].script
----

_next ==
    /\ \E i,j \in DOMAIN _TETrace:
        /\ \/ /\ j = i + 1
              /\ i = TLCGet("level")
        /\ stage  = _TETrace[i].stage
        /\ stage' = _TETrace[j].stage
        /\ script  = _TETrace[i].script
        /\ script' = _TETrace[j].script

\* Uncomment the ASSUME below to write the states of the error trace
\* to the given file in Json format. Note that you can pass any tuple
\* to `JsonSerialize`. For example, a sub-sequence of _TETrace.
    \* ASSUME
    \*     LET J == INSTANCE Json
    \*         IN J!JsonSerialize("MC_Reader_TTrace_1790470512.json", _TETrace)

=============================================================================

 Note that you can extract this module `MC_Reader_TEExpression`
  to a dedicated file to reuse `expression` (the module in the 
  dedicated `MC_Reader_TEExpression.tla` file takes precedence 
  over the module `MC_Reader_TEExpression` below).

---- MODULE MC_Reader_TEExpression ----
EXTENDS Sequences, MC_Reader, TLCExt, Toolbox, Naturals, TLC

expression == 
    [
        \* To hide variables of the `MC_Reader` spec from the error trace,
        \* remove the variables below.  The trace will be written in the order
        \* of the fields of this record.
        stage |-> stage
        ,script |-> script
        
        \* Put additional constant-, state-, and action-level expressions here:
        \* ,_stateNumber |-> _TEPosition
        \* ,_stageUnchanged |-> stage = stage'
        
        \* Format the `stage` variable as Json value.
        \* ,_stageJson |->
        \*     LET J == INSTANCE Json
        \*     IN J!ToJson(stage)
        
        \* Lastly, you may build expressions over arbitrary sets of states by
        \* leveraging the _TETrace operator.  For example, this is how to
        \* count the number of times a spec variable changed up to the current
        \* state in the trace.
        \* ,_stageModCount |->
        \*     LET F[s \in DOMAIN _TETrace] ==
        \*         IF s = 1 THEN 0
        \*         ELSE IF _TETrace[s].stage # _TETrace[s-1].stage
        \*             THEN 1 + F[s-1] ELSE F[s-1]
        \*     IN F[_TEPosition - 1]
    ]

=============================================================================



Parsing and semantic processing can take forever if the trace below is long.
 In this case, it is advised to uncomment the module below to deserialize the
 trace from a generated binary file.

\*
\*---- MODULE MC_Reader_TETrace ----
\*EXTENDS IOUtils, MC_Reader, TLC
\*
\*trace == IODeserialize("MC_Reader_TTrace_1790470512.bin", TRUE)
\*
\*=============================================================================
\*

---- MODULE MC_Reader_TETrace ----
EXTENDS MC_Reader, TLC

trace == 
    <<
    ([stage |-> 0,script |-> <<>>]),
    ([stage |-> 0,script |-> <<[d |-> <<0, 0>>, err |-> "EOF"]>>]),
    ([stage |-> 0,script |-> <<[d |-> <<0, 0>>, err |-> "EOF"], [d |-> <<0, 0>>, err |-> "EOF"]>>]),
    ([stage |-> 1,script |-> <<[d |-> <<0, 0>>, err |-> "EOF"], [d |-> <<0, 0>>, err |-> "EOF"]>>])
    >>
----


=============================================================================

---- CONFIG MC_Reader_TTrace_1790470512 ----
CONSTANTS
    P = 43
    A = 40
    B = 10
    Gx = 6
    Gy = 6
    Nn = 37
    NBits = 7
    Unit = 2
    Syms = { 0 , 4 , 7 }
    MaxSteps = 3
    DKey = 5
    EDig = 9

INVARIANT
    _inv

CHECK_DEADLOCK
    \* CHECK_DEADLOCK off because of PROPERTY or INVARIANT above.
    FALSE

INIT
    _init

NEXT
    _next

CONSTANT
    _TETrace <- _trace

ALIAS
    _expression
=============================================================================
\* Generated on Sun Sep 27 00:55:14 UTC 2026