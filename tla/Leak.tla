-------------------------------- MODULE Leak --------------------------------
(***************************************************************************)
(* Leakage model for C08.  An observation is the sequence of program       *)
(* points executed and memory locations touched (table rows, byte          *)
(* positions); data values are never observed.  The algorithm-level        *)
(* observation functions below mirror the designs of the repository        *)
(* (masked selection over ALL rows, borrow-chain comparison over ALL bytes, *)
(* fixed window schedule, fixed addition chain) and, for contrast, the     *)
(* three designs its README rules out (index by secret, early-exit         *)
(* comparison, data-dependent inversion loop).                             *)
(***************************************************************************)
EXTENDS Integers, Sequences

\* ---- table selection: W rows, secret index idx in 0..W (0 = "none")
ObsMaskedSelect(W, idx) == [i \in 1..W |-> <<"row", i>>]                 \* every row, always
ObsIndexedSelect(W, idx) == IF idx = 0 THEN <<>> ELSE <<<<"row", idx>>>>   \* counter-design

\* ---- comparison of two length-L strings
ObsBorrowChainCmp(a, b) == [i \in 1..Len(a) |-> <<"byte", Len(a) + 1 - i>>]      \* right to left, all bytes
RECURSIVE EarlyFrom(_, _, _)
EarlyFrom(a, b, i) == IF i > Len(a) THEN <<>>
                      ELSE IF a[i] # b[i] THEN <<<<"byte", i>>>>
                      ELSE <<<<"byte", i>>>> \o EarlyFrom(a, b, i + 1)
ObsEarlyExitCmp(a, b) == EarlyFrom(a, b, 1)                                     \* counter-design

\* ---- fixed-window scalar multiplication: nw windows of width w, table of 2^w - 1 rows
RECURSIVE WinFrom(_, _, _, _)
WinFrom(ws, i, W, skipzero) ==
  IF i > Len(ws) THEN <<>>
  ELSE (IF i > 1 THEN <<"dbl">> ELSE <<>>)
       \o (IF skipzero /\ ws[i] = 0 THEN <<>>                          \* counter-design: branch on the window value
           ELSE ObsMaskedSelect(W, ws[i]) \o <<"add">>)
       \o WinFrom(ws, i + 1, W, skipzero)
ObsWindowMult(ws, W) == WinFrom(ws, 1, W, FALSE)
ObsWindowMultBranchy(ws, W) == WinFrom(ws, 1, W, TRUE)

\* ---- inversion modulo a small prime m
ObsFermat(x, m, chain) == chain                                         \* a fixed sequence of "sq"/"mul"
RECURSIVE EuclidFrom(_, _)
EuclidFrom(a, b) == IF b = 0 THEN <<>> ELSE <<"div">> \o EuclidFrom(b, a % b)
ObsEuclid(x, m) == EuclidFrom(m, x % m)                                 \* counter-design

\* trace-level predicates used by T_Leak
RECURSIVE CommonPrefix(_, _, _)
CommonPrefix(a, b, i) == IF i > Len(a) \/ i > Len(b) \/ a[i] # b[i] THEN i - 1 ELSE CommonPrefix(a, b, i + 1)
RECURSIVE CommonSuffix(_, _, _)
CommonSuffix(a, b, k) ==      \* number of equal items counted from the ends
  IF k >= Len(a) \/ k >= Len(b) \/ a[Len(a) - k] # b[Len(b) - k] THEN k ELSE CommonSuffix(a, b, k + 1)
\* equal except for one window of at most `slack` items (the verdict branch): what precedes the
\* window and what follows it (the caller's instructions after the return) must coincide
EqualUpToVerdict(a, b, slack) ==
  LET cp == CommonPrefix(a, b, 1)
      cs == CommonSuffix(a, b, 0)
      longer == IF Len(a) > Len(b) THEN Len(a) ELSE Len(b)
  IN cp + cs >= longer - slack
=============================================================================
