--------------------------------- MODULE EC ---------------------------------
(***************************************************************************)
(* Short Weierstrass curve y^2 = x^3 + A x + B over F_P as an abstract     *)
(* group: affine points <<x, y>> and the point at infinity Inf.            *)
(* Definitional layer (R1): the textbook chord-and-tangent law with every  *)
(* special case spelled out, and scalar multiplication by double-and-add.  *)
(* Numbers are Num values (integers at toy size, BigNat at production).    *)
(***************************************************************************)
EXTENDS Integers, Sequences
CONSTANTS BigMode, P, A, B
N == INSTANCE Num

Inf == <<>>
IsInf(pt) == pt = <<>>
FAdd(a, b) == N!NModAdd(a, b, P)
FSub(a, b) == N!NModSub(a, b, P)
FMul(a, b) == N!NModMul(a, b, P)
FInv(a) == N!NModInv(a, P)
FNeg(a) == N!NModSub(N!NZero, a, P)
FEq(a, b) == N!NEq(N!NMod(a, P), N!NMod(b, P))

\* canonical coordinates (< P) satisfying the curve equation
Canon(v) == N!NLt(v, P)
OnCurveXY(x, y) ==
  /\ Canon(x) /\ Canon(y)
  /\ FEq(FMul(y, y), FAdd(FAdd(FMul(FMul(x, x), x), FMul(A, x)), B))
OnCurve(pt) == IsInf(pt) \/ OnCurveXY(pt[1], pt[2])

Pt(x, y) == <<N!NNorm(x), N!NNorm(y)>>
Neg(pt) == IF IsInf(pt) THEN Inf ELSE Pt(pt[1], FNeg(pt[2]))

AddPts(p1, p2) ==
  IF IsInf(p1) THEN p2
  ELSE IF IsInf(p2) THEN p1
  ELSE LET x1 == p1[1] y1 == p1[2] x2 == p2[1] y2 == p2[2]
       IN IF FEq(x1, x2)
          THEN IF FEq(y1, y2) /\ ~N!NIsZero(N!NMod(y1, P))
               THEN \* doubling: lambda = (3 x^2 + A) / (2 y)
                    LET lam == FMul(FAdd(FMul(N!NInt(3), FMul(x1, x1)), A), FInv(FAdd(y1, y1)))
                        x3 == FSub(FSub(FMul(lam, lam), x1), x1)
                        y3 == FSub(FMul(lam, FSub(x1, x3)), y1)
                    IN Pt(x3, y3)
               ELSE Inf      \* P + (-P), or a point of order 2 doubled
          ELSE LET lam == FMul(FSub(y2, y1), FInv(FSub(x2, x1)))
                   x3 == FSub(FSub(FMul(lam, lam), x1), x2)
                   y3 == FSub(FMul(lam, FSub(x1, x3)), y1)
               IN Pt(x3, y3)
Dbl(pt) == AddPts(pt, pt)

\* [k]pt for a scalar given by its bits: nbits most-significant-first positions nbits-1 .. 0
RECURSIVE MulFrom(_, _, _, _)
MulFrom(k, pt, i, acc) ==
  IF i < 0 THEN acc
  ELSE LET d == Dbl(acc)
       IN MulFrom(k, pt, i - 1, IF N!NBit(k, i) = 1 THEN AddPts(d, pt) ELSE d)
\* ScalarMulOn carries the curve parameters as explicit arguments only so that the Java
\* accelerator (which sees arguments, not module constants) can be handed them; its single
\* call site passes the module's own P and A, and the definition is the double-and-add above.
ScalarMulOn(p_, a_, k, pt, nbits) == MulFrom(k, pt, nbits - 1, Inf)
ScalarMulBits(k, pt, nbits) == ScalarMulOn(P, A, k, pt, nbits)
=============================================================================
