--------------------------- MODULE PointFormulas ---------------------------
(***************************************************************************)
(* Interpreter for the straight-line programs extracted from               *)
(* SM2Point.Add / SM2Point.Double (C15, binding B3) over a toy prime       *)
(* field.  Registers are named as in the Go source ("t0", "x3", "p1.x",    *)
(* "q.z", "sm2B", ...).  Receiver aliasing is modelled by name resolution: *)
(* when q aliases p1, a write to "q.x" is a write to the cell "p1.x", so a *)
(* program that stored a result before its last read of an aliased input   *)
(* would compute from the overwritten value - exactly as the Go code would.*)
(***************************************************************************)
EXTENDS Integers, Sequences
CONSTANT Pm          \* the field prime

Names(prog) == {prog[i].dst : i \in 1..Len(prog)} \cup {prog[i].a : i \in 1..Len(prog)}
               \cup {prog[i].b : i \in 1..Len(prog)}

\* alias: function from a register name to the cell it lives in
Cell(alias, r) == IF r \in DOMAIN alias THEN alias[r] ELSE r

RECURSIVE Run(_, _, _, _)
Run(prog, i, rf, alias) ==
  IF i > Len(prog) THEN rf
  ELSE LET ins == prog[i]
           a == rf[Cell(alias, ins.a)]
           b == IF ins.b = "" THEN 0 ELSE rf[Cell(alias, ins.b)]
           v == CASE ins.op = "mul" -> (a * b) % Pm
                  [] ins.op = "add" -> (a + b) % Pm
                  [] ins.op = "sub" -> (a + Pm - b) % Pm
                  [] ins.op = "sq"  -> (a * a) % Pm
                  [] ins.op = "set" -> a
       IN Run(prog, i + 1, [rf EXCEPT ![Cell(alias, ins.dst)] = v], alias)

\* every register starts at the poison value -1 (a read of an unwritten temporary shows up
\* as a wrong result: (-1 * x) % Pm is never what the formula wants)
InitRf(prog, inputs) ==
  [r \in Names(prog) \cup DOMAIN inputs |-> IF r \in DOMAIN inputs THEN inputs[r] ELSE -1]
=============================================================================
