----------------------------- MODULE MC_LeakToy -----------------------------
(***************************************************************************)
(* C08 at toy size: non-interference of the algorithm-level observations   *)
(* (module Leak) by self-composition over ALL pairs of toy secrets, and    *)
(* the sanity check that the three designs the README rules out VIOLATE    *)
(* it (so the property is not vacuous).                                    *)
(***************************************************************************)
EXTENDS Integers, Sequences, TLC
L == INSTANCE Leak
VARIABLES s1, s2, stage
W == 3                 \* 2-bit windows: 3 table rows
Wins == [1..4 -> 0..3] \* 8-bit scalars as four 2-bit windows
Strs == [1..3 -> 0..3] \* 3-symbol strings
Chain == <<"sq", "mul", "sq", "sq", "mul">>

Init == stage = 0 /\ s1 = <<>> /\ s2 = <<>>
Pick1 == stage = 0 /\ stage' = 1 /\ s1' \in Wins /\ UNCHANGED s2
Pick2 == stage = 1 /\ stage' = 2 /\ s2' \in Wins /\ UNCHANGED s1
Next == Pick1 \/ Pick2
Spec == Init /\ [][Next]_<<s1, s2, stage>>

\* secrets of the other primitives are derived from the two 8-bit values
A(s) == <<s[1], s[2], s[3]>>
Pub == <<1, 2, 3>>
NonInterference ==
  stage = 2 =>
    /\ L!ObsWindowMult(s1, W) = L!ObsWindowMult(s2, W)
    /\ \A i \in 1..4 : L!ObsMaskedSelect(W, s1[i]) = L!ObsMaskedSelect(W, s2[i])
    /\ L!ObsBorrowChainCmp(A(s1), Pub) = L!ObsBorrowChainCmp(A(s2), Pub)
    /\ L!ObsFermat(s1[1] + 4 * s1[2], 13, Chain) = L!ObsFermat(s2[1] + 4 * s2[2], 13, Chain)
\* evaluated once: each ruled-out design distinguishes some pair of secrets
CounterDesignsLeak ==
  stage = 0 =>
    /\ \E a \in Wins, b \in Wins : L!ObsWindowMultBranchy(a, W) # L!ObsWindowMultBranchy(b, W)
    /\ \E i \in 0..3, j \in 0..3 : L!ObsIndexedSelect(W, i) # L!ObsIndexedSelect(W, j)
    /\ \E a \in Strs, b \in Strs : L!ObsEarlyExitCmp(a, Pub) # L!ObsEarlyExitCmp(b, Pub)
    /\ \E x \in 1..12, y \in 1..12 : L!ObsEuclid(x, 13) # L!ObsEuclid(y, 13)
=============================================================================
