-------------------------------- MODULE SM4 --------------------------------
(***************************************************************************)
(* GB/T 32907-2016 (SM4) as executable TLA+ operators.  Definitional layer *)
(* (R1).  The S-box is defined algebraically,                              *)
(*   S(x) = A * Inv(A * x + C) + C  over GF(2)[t]/(t^8+t^7+t^6+t^5+t^4+t^2+1), *)
(* AND given as the standard's literal table; MC_Vectors requires the two  *)
(* to be equal for all 256 inputs.  CK is derived ((4i+j)*7 mod 256), FK   *)
(* is the standard's literal.                                              *)
(***************************************************************************)
EXTENDS Words

\* ---- GF(2^8), reduction polynomial 0x1F5
GPoly == 501
XTime(a) == LET d == a * 2 IN IF d >= 256 THEN d ^^ GPoly ELSE d
RECURSIVE GMulAcc(_, _, _, _)
GMulAcc(a, b, k, acc) ==        \* shift-and-add over the 8 bits of b
  IF k = 8 THEN acc
  ELSE GMulAcc(XTime(a), b, k + 1, IF (b \div Pow2(k)) % 2 = 1 THEN acc ^^ a ELSE acc)
GMul(a, b) == GMulAcc(a, b, 0, 0)
GSq(a) == GMul(a, a)
\* a^254 (= a^-1 for a # 0, and 0 for 0): 254 = 11111110b
GInv(a) ==
  LET a2 == GSq(a)  a3 == GMul(a2, a)  a6 == GSq(a3)  a7 == GMul(a6, a)
      a14 == GSq(a7) a15 == GMul(a14, a) a30 == GSq(a15) a31 == GMul(a30, a)
      a62 == GSq(a31) a63 == GMul(a62, a) a126 == GSq(a63) a127 == GMul(a126, a)
  IN GSq(a127)

\* the affine map: output bit i = parity(AMask[i+1] & x); rows of the circulant matrix
\*   11100101 / 11110010 / 01111001 / 10111100 / 01011110 / 00101111 / 10010111 / 11001011
\* read with column j = input bit j (bit 0 = least significant)
AMask == << 167, 79, 158, 61, 122, 244, 233, 211 >>
AConst == 211        \* 0xD3
RECURSIVE ParityAcc(_, _, _)
ParityAcc(v, k, acc) == IF k = 8 THEN acc ELSE ParityAcc(v, k + 1, (acc + ((v \div Pow2(k)) % 2)) % 2)
Parity(v) == ParityAcc(v, 0, 0)
AMul(x) == Parity(AMask[1] & x)       + 2 * Parity(AMask[2] & x)  + 4 * Parity(AMask[3] & x)
         + 8 * Parity(AMask[4] & x)   + 16 * Parity(AMask[5] & x) + 32 * Parity(AMask[6] & x)
         + 64 * Parity(AMask[7] & x)  + 128 * Parity(AMask[8] & x)
SBoxAlg(x) == AMul(GInv(AMul(x) ^^ AConst)) ^^ AConst

SBoxTab == <<
  214, 144, 233, 254, 204, 225,  61, 183,  22, 182,  20, 194,  40, 251,  44,   5,
   43, 103, 154, 118,  42, 190,   4, 195, 170,  68,  19,  38,  73, 134,   6, 153,
  156,  66,  80, 244, 145, 239, 152, 122,  51,  84,  11,  67, 237, 207, 172,  98,
  228, 179,  28, 169, 201,   8, 232, 149, 128, 223, 148, 250, 117, 143,  63, 166,
   71,   7, 167, 252, 243, 115,  23, 186, 131,  89,  60,  25, 230, 133,  79, 168,
  104, 107, 129, 178, 113, 100, 218, 139, 248, 235,  15,  75, 112,  86, 157,  53,
   30,  36,  14,  94,  99,  88, 209, 162,  37,  34, 124,  59,   1,  33, 120, 135,
  212,   0,  70,  87, 159, 211,  39,  82,  76,  54,   2, 231, 160, 196, 200, 158,
  234, 191, 138, 210,  64, 199,  56, 181, 163, 247, 242, 206, 249,  97,  21, 161,
  224, 174,  93, 164, 155,  52,  26,  85, 173, 147,  50,  48, 245, 140, 177, 227,
   29, 246, 226,  46, 130, 102, 202,  96, 192,  41,  35, 171,  13,  83,  78, 111,
  213, 219,  55,  69, 222, 253, 142,  47,   3, 255, 106, 114, 109, 108,  91,  81,
  141,  27, 175, 146, 187, 221, 188, 127,  17, 217,  92,  65,  31,  16,  90, 216,
   10, 193,  49, 136, 165, 205, 123, 189,  45, 116, 208,  18, 184, 229, 180, 176,
  137, 105, 151,  74,  12, 150, 119, 126, 101, 185, 241,   9, 197, 110, 198, 132,
   24, 240, 125, 236,  58, 220,  77,  32, 121, 238,  95,  62, 215, 203,  57,  72 >>
SBox(x) == SBoxTab[x + 1]
SBoxTableOK == \A x \in 0..255 : SBoxAlg(x) = SBox(x)

\* ---- round function
Tau(w) == << (SBox(w[1] \div 256) * 256) + SBox(w[1] % 256), (SBox(w[2] \div 256) * 256) + SBox(w[2] % 256) >>
L(b)  == WXor(WXor3(b, WRotl(b, 2), WRotl(b, 10)), WXor(WRotl(b, 18), WRotl(b, 24)))
Lp(b) == WXor3(b, WRotl(b, 13), WRotl(b, 23))
T(w)  == L(Tau(w))
Tp(w) == Lp(Tau(w))

FK == << W(41905, 47814), W(22186, 13136), W(26493, 37271), W(45680, 8924) >>
      \* a3b1bac6 56aa3350 677d9197 b27022dc
CKByte(i, j) == ((4 * i + j) * 7) % 256
CK(i) == << (CKByte(i, 0) * 256) + CKByte(i, 1), (CKByte(i, 2) * 256) + CKByte(i, 3) >>

\* key schedule: 32 round keys from a 16-byte key
RECURSIVE KeyRounds(_, _, _)
KeyRounds(k, i, acc) ==        \* k = <<K_i, K_i+1, K_i+2, K_i+3>>
  IF i = 32 THEN acc
  ELSE LET nk == WXor(k[1], Tp(WXor(WXor3(k[2], k[3], k[4]), CK(i))))
       IN KeyRounds(<<k[2], k[3], k[4], nk>>, i + 1, Append(acc, nk))
RoundKeys(key) ==
  KeyRounds(<< WXor(WFromBytes(key, 1), FK[1]), WXor(WFromBytes(key, 5), FK[2]),
               WXor(WFromBytes(key, 9), FK[3]), WXor(WFromBytes(key, 13), FK[4]) >>, 0, <<>>)
RECURSIVE ReverseAcc(_, _, _)
ReverseAcc(s, i, acc) == IF i = 0 THEN acc ELSE ReverseAcc(s, i - 1, Append(acc, s[i]))
Reverse(s) == ReverseAcc(s, Len(s), <<>>)

\* 32 rounds with the given round-key sequence, then the reverse transform R
RECURSIVE Rounds(_, _, _)
Rounds(x, rk, i) ==
  IF i > 32 THEN x
  ELSE Rounds(<<x[2], x[3], x[4], WXor(x[1], T(WXor(WXor3(x[2], x[3], x[4]), rk[i])))>>, rk, i + 1)
CryptWithKeys(rk, blk) ==
  LET x == Rounds(<<WFromBytes(blk, 1), WFromBytes(blk, 5), WFromBytes(blk, 9), WFromBytes(blk, 13)>>, rk, 1)
  IN WToBytes(x[4]) \o WToBytes(x[3]) \o WToBytes(x[2]) \o WToBytes(x[1])
Enc(key, blk) == CryptWithKeys(RoundKeys(key), blk)
Dec(key, blk) == CryptWithKeys(Reverse(RoundKeys(key)), blk)

\* GB/T 32907 appendix A example 1
VecKey == << 1,35,69,103, 137,171,205,239, 254,220,186,152, 118,84,50,16 >>
VecCt  == << 104,30,223,52, 210,6,150,94, 134,179,233,79, 83,110,66,70 >>
VectorsOK == Enc(VecKey, VecKey) = VecCt /\ Dec(VecKey, VecCt) = VecKey
=============================================================================
