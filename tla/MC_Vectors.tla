----------------------------- MODULE MC_Vectors -----------------------------
(* Evaluates the published vectors of every definitional module inside an  *)
(* action (ASSUME evaluation ignores -Xss).  A FALSE here means the spec is *)
(* wrong: exit 2, never a violation.                                        *)
EXTENDS Naturals, Sequences, TLC, TLCExt
S3 == INSTANCE SM3
S4 == INSTANCE SM4
VARIABLE done
Init == done = 0
Next == /\ done = 0
        /\ done' = 1
        /\ Assert(S3!VectorsOK, "SM3 standard vectors")
        /\ Assert(S4!SBoxTableOK, "SM4 algebraic S-box = literal table")
        /\ Assert(S4!VectorsOK, "SM4 standard example")
Spec == Init /\ [][Next]_done
=============================================================================
