----------------------------- MODULE MC_Vectors -----------------------------
(* Evaluates the published vectors of every definitional module inside an  *)
(* action (ASSUME evaluation ignores -Xss).  A FALSE here means the spec is *)
(* wrong: exit 2, never a violation.                                        *)
EXTENDS Naturals, Sequences, TLC, TLCExt
S3 == INSTANCE SM3
S4 == INSTANCE SM4
G == INSTANCE GCM WITH EK <- S4!CryptWithKeys
\* RFC 8998 appendix A.1 (SM4-GCM)
RfcKey == << 1, 35, 69, 103, 137, 171, 205, 239, 254, 220, 186, 152, 118, 84, 50, 16 >>
RfcIV == << 0, 0, 18, 52, 86, 120, 0, 0, 0, 0, 171, 205 >>
RfcAAD == << 254, 237, 250, 206, 222, 173, 190, 239, 254, 237, 250, 206, 222, 173, 190, 239, 171, 173, 218, 210 >>
RfcPT == << 170, 170, 170, 170, 170, 170, 170, 170, 187, 187, 187, 187, 187, 187, 187, 187, 204, 204, 204, 204, 204, 204, 204, 204, 221, 221, 221, 221, 221, 221, 221, 221, 238, 238, 238, 238, 238, 238, 238, 238, 255, 255, 255, 255, 255, 255, 255, 255, 238, 238, 238, 238, 238, 238, 238, 238, 170, 170, 170, 170, 170, 170, 170, 170 >>
RfcCT == << 23, 243, 153, 240, 140, 103, 213, 238, 25, 208, 220, 153, 105, 196, 187, 125, 95, 212, 111, 211, 117, 100, 137, 6, 145, 87, 178, 130, 187, 32, 7, 53, 216, 39, 16, 202, 92, 34, 240, 204, 250, 124, 191, 147, 212, 150, 172, 21, 165, 104, 52, 203, 207, 152, 195, 151, 180, 2, 74, 38, 145, 35, 59, 141 >>
RfcTag == << 131, 222, 53, 65, 228, 194, 181, 129, 119, 224, 101, 169, 191, 123, 98, 236 >>
RfcOK == LET rk == S4!RoundKeys(RfcKey) IN
           /\ G!Seal(rk, RfcIV, RfcAAD, RfcPT, 16) = RfcCT \o RfcTag
           /\ G!Open(rk, RfcIV, RfcAAD, RfcCT \o RfcTag, 16) = [ok |-> TRUE, pt |-> RfcPT]
VARIABLE done
Init == done = 0
Next == /\ done = 0
        /\ done' = 1
        /\ Assert(S3!VectorsOK, "SM3 standard vectors")
        /\ Assert(S4!SBoxTableOK, "SM4 algebraic S-box = literal table")
        /\ Assert(S4!VectorsOK, "SM4 standard example")
        /\ Assert(G!MulVectorOK, "GF(2^128) multiplication, GCM spec test case 2")
        /\ Assert(RfcOK, "SM4-GCM, RFC 8998 A.1")
Spec == Init /\ [][Next]_done
=============================================================================
