----------------------------- MODULE MC_CmpNaf -----------------------------
(***************************************************************************)
(* Exhaustive small model for C20.  One behaviour per input: the initial   *)
(* states enumerate the input space, the single step evaluates the coded   *)
(* algorithm and the definition.                                           *)
(*  cmp: all pairs of K-digit strings over 0..D-1, all l in 0..K           *)
(*  naf: all values of NB-bit inputs (NB = 8 or 16), all w in 1..7         *)
(***************************************************************************)
EXTENDS Integers, Sequences, TLC
CONSTANTS K, D, NB
U == INSTANCE Util
C == INSTANCE CmpNaf
VARIABLES kind, x, y, stage

Strs == [1..K -> 0..(D - 1)]
NBytes == NB \div 8
\* stage 0 -> 1 picks the first symbol, 1 -> 2 the rest: successor generation is then spread
\* over TLC's workers (a single huge Init is computed by one thread)
Init == stage = 0 /\ kind = "none" /\ x = <<>> /\ y = 0
Pick1 == /\ stage = 0 /\ stage' = 1 /\ y' = y
         /\ \/ kind' = "cmp" /\ \E a \in 0..(D - 1) : x' = <<a>>
            \/ kind' = "naf" /\ \E a \in 0..255 : x' = <<a>>
Pick2 == /\ stage = 1 /\ stage' = 2 /\ kind' = kind
         /\ \/ kind = "cmp" /\ \E r \in [1..(K - 1) -> 0..(D - 1)], b \in Strs :
                              x' = x \o r /\ y' = b
            \/ kind = "naf" /\ \E r \in [1..(NBytes - 1) -> 0..255], w \in 1..7 :
                              x' = x \o r /\ y' = w
Next == Pick1 \/ Pick2
Spec == Init /\ [][Next]_<<kind, x, y, stage>>

CmpOK == (stage = 2 /\ kind = "cmp") => \A l \in 0..K : C!CmpImpl(x, y, l) = U!LexCmp(x, y, l)
NafOK == (stage = 2 /\ kind = "naf") => U!IsNAF(C!NafImpl(x, NB + 1, y), y, x)
=============================================================================
