-------------------------------- MODULE GCM --------------------------------
(***************************************************************************)
(* NIST SP 800-38D Galois/Counter Mode over a 128-bit block cipher, as     *)
(* executable TLA+ operators (definitional layer R1).                      *)
(* The block cipher is a parameter: EK(rk, block) with rk an opaque key    *)
(* object (the SM4 round keys in production).                              *)
(* A 128-bit block is a sequence of 16 bytes; inside the field arithmetic  *)
(* it is a tuple of eight 16-bit limbs, most significant first (bit x_0 of *)
(* SP 800-38D is the top bit of limb 1).                                   *)
(***************************************************************************)
EXTENDS Words
CONSTANT EK(_, _)

\* ---- GF(2^128), SP 800-38D section 6.3 (Algorithm 1), R = 11100001 || 0^120
Limbs(b) == << (b[1] * 256) + b[2],   (b[3] * 256) + b[4],   (b[5] * 256) + b[6],   (b[7] * 256) + b[8],
               (b[9] * 256) + b[10],  (b[11] * 256) + b[12], (b[13] * 256) + b[14], (b[15] * 256) + b[16] >>
Unlimbs(v) == << v[1] \div 256, v[1] % 256, v[2] \div 256, v[2] % 256, v[3] \div 256, v[3] % 256,
                 v[4] \div 256, v[4] % 256, v[5] \div 256, v[5] % 256, v[6] \div 256, v[6] % 256,
                 v[7] \div 256, v[7] % 256, v[8] \div 256, v[8] % 256 >>
LXor(a, b) == << a[1] ^^ b[1], a[2] ^^ b[2], a[3] ^^ b[3], a[4] ^^ b[4],
                 a[5] ^^ b[5], a[6] ^^ b[6], a[7] ^^ b[7], a[8] ^^ b[8] >>
LZero == <<0, 0, 0, 0, 0, 0, 0, 0>>
\* V >> 1, then conditional reduction by R when the bit shifted out was 1
MulX(v) ==
  LET s1 == (v[1] \div 2) ^^ (IF v[8] % 2 = 1 THEN 57600 ELSE 0)      \* 0xE100
  IN << s1,
        (v[2] \div 2) + ((v[1] % 2) * 32768), (v[3] \div 2) + ((v[2] % 2) * 32768),
        (v[4] \div 2) + ((v[3] % 2) * 32768), (v[5] \div 2) + ((v[4] % 2) * 32768),
        (v[6] \div 2) + ((v[5] % 2) * 32768), (v[7] \div 2) + ((v[6] % 2) * 32768),
        (v[8] \div 2) + ((v[7] % 2) * 32768) >>
BitX(x, i) == (x[(i \div 16) + 1] \div Pow2(15 - (i % 16))) % 2     \* bit x_i, i = 0..127
RECURSIVE MulAcc(_, _, _, _)
MulAcc(x, v, z, i) ==
  IF i = 128 THEN z
  ELSE MulAcc(x, MulX(v), IF BitX(x, i) = 1 THEN LXor(z, v) ELSE z, i + 1)
LMul(x, y) == MulAcc(x, y, LZero, 0)            \* on limb tuples
GMul128(a, b) == Unlimbs(LMul(Limbs(a), Limbs(b)))   \* on 16-byte blocks

\* ---- GHASH on limb tuples (kept for T_Guard / T_Accel and speed: no conversion per block)
RECURSIVE GHashAcc(_, _, _, _)
GHashAcc(h, x, i, y) ==
  IF i > Len(x) THEN y
  ELSE GHashAcc(h, x, i + 16, LMul(LXor(y, Limbs(SubSeq(x, i, i + 15))), h))

Len64(nbytes) ==        \* [8 * nbytes]_64 for nbytes < 2^31 (no intermediate value exceeds 2^31)
  <<0, 0, 0, (nbytes \div 536870912) % 256>> \o WToBytes(<< (nbytes \div 8192) % 65536, (nbytes % 8192) * 8 >>)

\* ---- the mode: SP 800-38D is written once, over an abstract block, in module GCMG; this is
\* its production instance (16-byte blocks, 32-bit counter, GF(2^128), 64-bit bit lengths,
\* 96-bit fast-path IV)
LenBlock128(alen, clen) == Len64(alen) \o Len64(clen)
IVTail128(ivlen) == Zeros(8) \o Len64(ivlen)
M == INSTANCE GCMG WITH BS <- 16, CS <- 4, Base <- 256, FMul <- GMul128,
                        LenBlock <- LenBlock128, IVTail <- IVTail128, StdIV <- 12
GHash(H, x) == M!GHash(H, x)
Inc32(cb) == M!Inc(cb)
GCtr(rk, icb, x) == M!GCtr(rk, icb, x)
HashKey(rk) == M!HashKey(rk)
J0(H, iv) == M!J0(H, iv)
Seal(rk, iv, aad, p, t) == M!Seal(rk, iv, aad, p, t)
Open(rk, iv, aad, ct, t) == M!Open(rk, iv, aad, ct, t)
Decrypted(rk, iv, ct, t) == M!Decrypted(rk, iv, ct, t)
SealZeroAad(rk, iv, nz, p, t) == M!SealZeroAad(rk, iv, nz, p, t)
SealZeroIv(rk, nz, aad, p, t) == M!SealZeroIv(rk, nz, aad, p, t)

\* ---- published vectors
\* GCM specification (McGrew, Viega) test case 2: X1 = C * H
V2H == << 102, 233, 75, 212, 239, 138, 44, 59, 136, 76, 250, 89, 202, 52, 43, 46 >>
V2C == << 3, 136, 218, 206, 96, 182, 163, 146, 243, 40, 194, 185, 113, 178, 254, 120 >>
V2X == << 94, 46, 199, 70, 145, 112, 98, 136, 44, 133, 176, 104, 83, 83, 222, 183 >>
MulVectorOK == GMul128(V2C, V2H) = V2X /\ GMul128(V2H, V2C) = V2X
=============================================================================
