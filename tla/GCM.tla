-------------------------------- MODULE GCM --------------------------------
(***************************************************************************)
(* NIST SP 800-38D Galois/Counter Mode over a 128-bit block cipher, as     *)
(* executable TLA+ operators (definitional layer R1).                      *)
(* The block cipher is a parameter: EK(rk, block) with rk an opaque key    *)
(* object (the SM4 round keys in production).                              *)
(* A 128-bit block is a sequence of 16 bytes; inside the field arithmetic  *)
(* it is a tuple of eight 16-bit limbs, most significant first (bit x_0 of *)
(* SP 800-38D is the top bit of limb 1).                                   *)
(***************************************************************************)
EXTENDS Words
CONSTANT EK(_, _)

\* ---- GF(2^128), SP 800-38D section 6.3 (Algorithm 1), R = 11100001 || 0^120
Limbs(b) == << (b[1] * 256) + b[2],   (b[3] * 256) + b[4],   (b[5] * 256) + b[6],   (b[7] * 256) + b[8],
               (b[9] * 256) + b[10],  (b[11] * 256) + b[12], (b[13] * 256) + b[14], (b[15] * 256) + b[16] >>
Unlimbs(v) == << v[1] \div 256, v[1] % 256, v[2] \div 256, v[2] % 256, v[3] \div 256, v[3] % 256,
                 v[4] \div 256, v[4] % 256, v[5] \div 256, v[5] % 256, v[6] \div 256, v[6] % 256,
                 v[7] \div 256, v[7] % 256, v[8] \div 256, v[8] % 256 >>
LXor(a, b) == << a[1] ^^ b[1], a[2] ^^ b[2], a[3] ^^ b[3], a[4] ^^ b[4],
                 a[5] ^^ b[5], a[6] ^^ b[6], a[7] ^^ b[7], a[8] ^^ b[8] >>
LZero == <<0, 0, 0, 0, 0, 0, 0, 0>>
\* V >> 1, then conditional reduction by R when the bit shifted out was 1
MulX(v) ==
  LET s1 == (v[1] \div 2) ^^ (IF v[8] % 2 = 1 THEN 57600 ELSE 0)      \* 0xE100
  IN << s1,
        (v[2] \div 2) + ((v[1] % 2) * 32768), (v[3] \div 2) + ((v[2] % 2) * 32768),
        (v[4] \div 2) + ((v[3] % 2) * 32768), (v[5] \div 2) + ((v[4] % 2) * 32768),
        (v[6] \div 2) + ((v[5] % 2) * 32768), (v[7] \div 2) + ((v[6] % 2) * 32768),
        (v[8] \div 2) + ((v[7] % 2) * 32768) >>
BitX(x, i) == (x[(i \div 16) + 1] \div Pow2(15 - (i % 16))) % 2     \* bit x_i, i = 0..127
RECURSIVE MulAcc(_, _, _, _)
MulAcc(x, v, z, i) ==
  IF i = 128 THEN z
  ELSE MulAcc(x, MulX(v), IF BitX(x, i) = 1 THEN LXor(z, v) ELSE z, i + 1)
LMul(x, y) == MulAcc(x, y, LZero, 0)            \* on limb tuples
GMul128(a, b) == Unlimbs(LMul(Limbs(a), Limbs(b)))   \* on 16-byte blocks

\* ---- GHASH over a byte string whose length is a multiple of 16
RECURSIVE GHashAcc(_, _, _, _)
GHashAcc(h, x, i, y) ==
  IF i > Len(x) THEN y
  ELSE GHashAcc(h, x, i + 16, LMul(LXor(y, Limbs(SubSeq(x, i, i + 15))), h))
GHash(H, x) == Unlimbs(GHashAcc(Limbs(H), x, 1, LZero))

PadTo16(x) == x \o Zeros((16 - (Len(x) % 16)) % 16)
Len64(nbytes) ==        \* [8 * nbytes]_64, nbytes < 2^28
  <<0, 0, 0, 0>> \o WToBytes(<< (nbytes \div 8192) % 65536, (nbytes % 8192) * 8 >>)

\* ---- counter mode
Inc32(cb) == SubSeq(cb, 1, 12) \o WToBytes(WAdd(WFromBytes(cb, 13), <<0, 1>>))
RECURSIVE GCtrAcc(_, _, _, _, _, _)
GCtrAcc(rk, cb, x, i, last, acc) ==      \* blocks starting at i, up to position last
  IF i > last THEN <<acc, cb>>
  ELSE LET n == IF i + 15 <= last THEN 16 ELSE last - i + 1
       IN GCtrAcc(rk, Inc32(cb), x, i + 16, last, acc \o XorBytes(SubSeq(x, i, i + n - 1), EK(rk, cb)))
\* two-level accumulation (1024-byte chunks) keeps the evaluation linear in Len(x): the meaning
\* is simply  x XOR (E(cb) || E(cb+1) || ...)  truncated to Len(x)
RECURSIVE GCtrChunks(_, _, _, _, _)
GCtrChunks(rk, cb, x, i, acc) ==
  IF i > Len(x) THEN acc
  ELSE LET last == IF i + 1023 <= Len(x) THEN i + 1023 ELSE Len(x)
           r == GCtrAcc(rk, cb, x, i, last, <<>>)
       IN GCtrChunks(rk, r[2], x, i + 1024, acc \o r[1])
GCtr(rk, icb, x) == GCtrChunks(rk, icb, x, 1, <<>>)

\* ---- the mode
HashKey(rk) == EK(rk, Zeros(16))
J0(H, iv) == IF Len(iv) = 12 THEN iv \o <<0, 0, 0, 1>>
             ELSE GHash(H, PadTo16(iv) \o Zeros(8) \o Len64(Len(iv)))
Tag(rk, H, j0, aad, c, t) ==
  LET s == GHash(H, PadTo16(aad) \o PadTo16(c) \o Len64(Len(aad)) \o Len64(Len(c)))
  IN SubSeq(XorBytes(s, EK(rk, j0)), 1, t)

\* Seal: ciphertext followed by the tag truncated to t bytes
Seal(rk, iv, aad, p, t) ==
  LET H == HashKey(rk)
      j0 == J0(H, iv)
      c == GCtr(rk, Inc32(j0), p)
  IN c \o Tag(rk, H, j0, aad, c, t)

\* Open: [ok |-> TRUE, pt |-> ...] or [ok |-> FALSE, pt |-> <<>>]
Open(rk, iv, aad, ct, t) ==
  IF Len(ct) < t THEN [ok |-> FALSE, pt |-> <<>>]
  ELSE LET H == HashKey(rk)
           j0 == J0(H, iv)
           c == SubSeq(ct, 1, Len(ct) - t)
           tg == SubSeq(ct, Len(ct) - t + 1, Len(ct))
       IN IF Tag(rk, H, j0, aad, c, t) = tg
          THEN [ok |-> TRUE, pt |-> GCtr(rk, Inc32(j0), c)]
          ELSE [ok |-> FALSE, pt |-> <<>>]

\* ---- published vectors
\* GCM specification (McGrew, Viega) test case 2: X1 = C * H
V2H == << 102, 233, 75, 212, 239, 138, 44, 59, 136, 76, 250, 89, 202, 52, 43, 46 >>
V2C == << 3, 136, 218, 206, 96, 182, 163, 146, 243, 40, 194, 185, 113, 178, 254, 120 >>
V2X == << 94, 46, 199, 70, 145, 112, 98, 136, 44, 133, 176, 104, 83, 83, 222, 183 >>
MulVectorOK == GMul128(V2C, V2H) = V2X /\ GMul128(V2H, V2C) = V2X
=============================================================================
