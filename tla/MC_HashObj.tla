----------------------------- MODULE MC_HashObj -----------------------------
(***************************************************************************)
(* Exhaustive small-constant model for C04: the buffer machine of HashObj  *)
(* refines the definition "pad the whole message, then absorb it block by  *)
(* block", for ALL histories of Write(n)/Sum/Reset within the bounds.      *)
(* Block = 4 bytes, 1-byte length field, and the compression function is a *)
(* free (injective) constructor, so two digests are equal iff the same     *)
(* sequence of blocks was absorbed.                                        *)
(***************************************************************************)
EXTENDS Naturals, Sequences, TLC, Words
CONSTANTS MaxWrite, MaxLen, MaxOps
BSz == 4
Cons(v, b) == <<v, b>>
Id(v) == v
H == INSTANCE HashObj WITH B <- BSz, CFop <- Cons, IVval <- <<>>, Out <- Id

VARIABLES m, written, nops, lastSum, hist

\* definition at toy size: message, 0x80, zeros up to 3 mod 4, 1-byte length
PadZ(n) == (BSz + BSz - 1 - 1 - (n % BSz)) % BSz
Pad(msg) == msg \o <<128>> \o Zeros(PadZ(Len(msg))) \o <<Len(msg) % 256>>
RECURSIVE Absorb(_, _, _)
Absorb(v, p, i) == IF i > Len(p) THEN v ELSE Absorb(Cons(v, SubSeq(p, i, i + BSz - 1)), p, i + BSz)
Def(msg) == Absorb(<<>>, Pad(msg), 1)

RECURSIVE Fresh(_, _, _)
Fresh(from, n, acc) == IF n = 0 THEN acc ELSE Fresh(from + 1, n - 1, Append(acc, (from % 100) + 1))

Init == m = H!New /\ written = <<>> /\ nops = 0 /\ lastSum = "none" /\ hist = <<>>

DoWrite(n) == /\ Len(written) + n <= MaxLen
              /\ LET d == Fresh(Len(written), n, <<>>)
                 IN m' = H!Write(m, d) /\ written' = written \o d
              /\ nops' = nops + 1 /\ UNCHANGED lastSum /\ hist' = Append(hist, n)
DoSum == /\ lastSum' = H!Sum(m)      \* Sum works on a copy: m unchanged
         /\ nops' = nops + 1 /\ UNCHANGED <<m, written>> /\ hist' = Append(hist, 100)
DoReset == /\ m' = H!New /\ written' = <<>> /\ nops' = nops + 1 /\ UNCHANGED lastSum
           /\ hist' = Append(hist, 101)

Next == nops < MaxOps /\ ((\E n \in 0..MaxWrite : DoWrite(n)) \/ DoSum \/ DoReset)
vars == <<m, written, nops, lastSum, hist>>
Spec == Init /\ [][Next]_vars
\* hist (the operation history: n = Write(n), 100 = Sum, 101 = Reset) is an observation-only
\* variable: hidden from the exhaustive check by VIEW, used by the MBT configuration
\* (MC_HashObj_mbt.cfg) to print every maximal history for replay on the real code (R4).
View == <<m, written, nops, lastSum>>
EmitHist == (nops = MaxOps) => PrintT(<<"MBT", hist>>)

\* the properties
FillLevel   == Len(m.buf) = m.len % BSz /\ Len(m.buf) < BSz
LenIsCount  == m.len = Len(written)
BufIsTail   == m.buf = SubSeq(written, Len(written) - Len(m.buf) + 1, Len(written))
SumIsDef    == H!Sum(m) = Def(written)
PadShape    == Len(Pad(written)) % BSz = 0

\* the length-level abstraction HashLen (whose invariants Apalache discharges for every length) is the
\* projection of this machine: fill level, byte count, number of compressions
RECURSIVE Depth(_)
Depth(v) == IF v = <<>> THEN 0 ELSE 1 + Depth(v[1])
HL == INSTANCE HashLen WITH B <- BSz, LB <- 1, nx <- Len(m.buf), len <- m.len, blocks <- Depth(m.v)
LenAbstraction ==
  /\ HL!IndInv
  /\ \A n \in 0..MaxWrite :
       LET w == H!Write(m, Fresh(Len(written), n, <<>>))
           a == HL!WriteStep(Len(m.buf), n)
       IN Len(w.buf) = a.nx /\ Depth(w.v) = Depth(m.v) + a.cf
  /\ Depth(H!Sum(m)) = Depth(m.v) + HL!SumStep(Len(m.buf)).extra
=============================================================================
