-------------------------------- MODULE SM2 --------------------------------
(***************************************************************************)
(* GM/T 0003.2-2012 (SM2 digital signature) over an abstract curve group.  *)
(* Definitional layer (R1).  Parameterised by the curve (P, A, B), the     *)
(* base point (Gx, Gy), its prime order Nn and the scalar bit length, so   *)
(* that the same text is model-checked exhaustively on toy curves          *)
(* (BigMode = FALSE) and used as the oracle for 256-bit executions.        *)
(***************************************************************************)
EXTENDS Integers, Sequences
CONSTANTS BigMode, P, A, B, Gx, Gy, Nn, NBits
N == INSTANCE Num
E == INSTANCE EC

G == <<Gx, Gy>>
Mul(k, pt) == E!ScalarMulBits(k, pt, NBits)          \* k < 2^NBits
NM1 == N!NSub(Nn, N!NOne)

\* private keys are exactly 1 .. n-2 (so that 1 + d is invertible mod n)
ValidPriv(d) == ~N!NIsZero(d) /\ N!NLt(d, NM1)
Pub(d) == Mul(d, G)

\* one signing attempt with nonce candidate k (GM/T 0003.2 section 6.1, A3-A6).
\* AttemptX is the arithmetic after the point multiplication, for a given x1 = x([k]G); it is
\* separate so that the same text can judge executions in which a verification hook substitutes
\* x1 (values of x1 that no choice of k reaches, e.g. e + x1 >= 2n).
AttemptX(d, e, k, x1) ==
  LET r == N!NMod(N!NAdd(e, x1), Nn)
  IN IF N!NIsZero(r) THEN [skip |-> TRUE, why |-> "r_zero"]
     ELSE IF N!NEq(N!NAdd(r, k), Nn) THEN [skip |-> TRUE, why |-> "rk_n"]
     ELSE LET dinv == N!NModInv(N!NAdd(d, N!NOne), Nn)
              s == N!NModMul(dinv, N!NModSub(k, N!NModMul(r, d, Nn), Nn), Nn)
          IN IF N!NIsZero(s) THEN [skip |-> TRUE, why |-> "s_zero"]
             ELSE [skip |-> FALSE, why |-> "ok", r |-> r, s |-> s]
KInRange(k) == ~N!NIsZero(k) /\ N!NLt(k, Nn)
Attempt(d, e, k) ==
  IF ~KInRange(k) THEN [skip |-> TRUE, why |-> "k_range"] ELSE AttemptX(d, e, k, Mul(k, G)[1])
AttemptInjected(d, e, k, x1) ==
  IF ~KInRange(k) THEN [skip |-> TRUE, why |-> "k_range"] ELSE AttemptX(d, e, k, x1)

\* the signature for the first acceptable candidate of the stream ks
RECURSIVE SignFrom(_, _, _, _)
SignFrom(d, e, ks, i) ==
  IF i > Len(ks) THEN [kind |-> "exhausted", consumed |-> Len(ks)]
  ELSE LET a == Attempt(d, e, ks[i])
       IN IF a.skip THEN SignFrom(d, e, ks, i + 1)
          ELSE [kind |-> "sig", r |-> a.r, s |-> a.s, consumed |-> i]
SignDef(d, e, ks) ==
  IF ~ValidPriv(d) THEN [kind |-> "badkey", consumed |-> 0] ELSE SignFrom(d, e, ks, 1)

\* verification (section 7.1, B1-B7), every side condition spelled out
InRange(v) == ~N!NIsZero(v) /\ N!NLt(v, Nn)
VerifyDef(px, py, e, r, s) ==
  /\ InRange(r) /\ InRange(s)
  /\ E!OnCurveXY(px, py)
  /\ LET t == N!NMod(N!NAdd(r, s), Nn)
     IN /\ ~N!NIsZero(t)
        /\ LET R == E!AddPts(Mul(s, G), Mul(t, <<px, py>>))
           IN /\ ~E!IsInf(R)
              /\ N!NEq(N!NMod(N!NAdd(e, R[1]), Nn), r)
=============================================================================
