------------------------------ MODULE SignFlow ------------------------------
(***************************************************************************)
(* Implementation-shaped layer (R2) for C02 / C12 / C19: the rejection     *)
(* loops of sm2.GenerateKey and sm2.SignHashed over a Reader script, as    *)
(* state machines written as recursive operators (one recursion step = one *)
(* loop iteration of the Go code: draw a full unit, test, continue).       *)
(* Parameters: Unit (32 bytes; 1 or 2 symbols in the toy models), the key  *)
(* predicate and the per-candidate signing attempt of module SM2, and the  *)
(* conversion from a unit of bytes to a number.                            *)
(***************************************************************************)
EXTENDS Naturals, Sequences
CONSTANTS Unit, ValidKey(_), AttemptOp(_, _, _), ToNum(_)
R == INSTANCE Reader

\* GenerateKey: first candidate that is a valid key; error as soon as a draw fails
RECURSIVE KeyGenFrom(_, _, _)
KeyGenFrom(sc, log, tries) ==
  LET rf == R!ReadFull(sc, Unit, log)
  IN IF ~rf.ok THEN [kind |-> "err", log |-> rf.log, tries |-> tries]
     ELSE IF ValidKey(ToNum(rf.data))
          THEN [kind |-> "key", d |-> rf.data, log |-> rf.log, tries |-> tries + 1]
          ELSE KeyGenFrom(rf.sc, rf.log, tries + 1)
KeyGen(sc) == KeyGenFrom(sc, <<>>, 0)

\* SignHashed: key test first (nothing is drawn for a refused key), then the loop
RECURSIVE SignFrom(_, _, _, _, _)
SignFrom(d, e, sc, log, tries) ==
  LET rf == R!ReadFull(sc, Unit, log)
  IN IF ~rf.ok THEN [kind |-> "err", log |-> rf.log, tries |-> tries]
     ELSE LET a == AttemptOp(d, e, ToNum(rf.data))
          IN IF a.skip THEN SignFrom(d, e, rf.sc, rf.log, tries + 1)
             ELSE [kind |-> "sig", r |-> a.r, s |-> a.s, log |-> rf.log, tries |-> tries + 1]
Sign(d, e, sc) ==
  IF ~ValidKey(d) THEN [kind |-> "badkey", log |-> <<>>, tries |-> 0]
  ELSE SignFrom(d, e, sc, <<>>, 0)
=============================================================================
