SPECIFICATION Spec
CONSTANTS P = 23
          B = 8
INVARIANTS AddComplete DoubleComplete CurveIsPrimeOrder
CHECK_DEADLOCK FALSE
