------------------------------- MODULE T_SM2 -------------------------------
(***************************************************************************)
(* Trace specification for the sm2 package (C01, C02, C03, C12, C13, C19,  *)
(* and the no-input-modification part of C10): every recorded call of      *)
(* GenerateKey / DerivePublic / TestPrivateKey / CheckOnCurve / ZA /       *)
(* Sign* / Verify* must be the step that GM/T 0003.2 (module SM2 on the    *)
(* SM2 curve), the SM3 definition and the Reader/SignFlow machines         *)
(* prescribe.  Stateless: every event carries all its inputs.              *)
(***************************************************************************)
EXTENDS Integers, Sequences, TLC
C == INSTANCE SM2Curve
S3 == INSTANCE SM3
BN == INSTANCE BigNat
R == INSTANCE Reader
VARIABLES l, st, bad

ValidNum(d) == C!S!ValidPriv(d)
Ident(x) == x
F == INSTANCE SignFlow WITH Unit <- 32, ValidKey <- ValidNum, AttemptOp <- C!S!Attempt, ToNum <- Ident

B32(v) == BN!ToBytes(v, 32)
\* what the signer may treat as a key: at most 32 bytes (shorter = left-padded), value in [1, n-2]
KeyOK(priv) == Len(priv) <= 32 /\ ValidNum(priv)

\* user hash ZA = SM3(ENTL || id || a || b || Gx || Gy || xA || yA)
ZBytes == B32(C!A) \o B32(C!B) \o B32(C!Gx) \o B32(C!Gy)
ZAof(id, px, py) ==
  LET bits == 8 * Len(id)
  IN S3!Hash(<<bits \div 256, bits % 256>> \o id \o ZBytes \o px \o py)
IdOK(id) == Len(id) < 8192
\* id_zeros: the id is that many zero bytes (lengths far beyond the limit are carried as a count)
IdOKev(ev) == IF "id_zeros" \in DOMAIN ev THEN ev.id_zeros < 8192 ELSE IdOK(ev.id)
Eof(za, msg) == S3!Hash(za \o msg)

InsSame(ev, ins) == ev.ins_after = ins

\* ---- expected outcome of a signing call with digest e.  When the event carries x1 (the
\* verification hook substituted the x coordinate of [k]G for every candidate) the loop is the
\* same machine over AttemptInjected.
FlowSign(ev, e) ==
  IF "x1" \in DOMAIN ev
  THEN LET FX == INSTANCE SignFlow WITH Unit <- 32, ValidKey <- ValidNum, ToNum <- Ident,
                                       AttemptOp <- LAMBDA dd, ee, kk : C!S!AttemptInjected(dd, ee, kk, ev.x1)
       IN FX!Sign(ev.priv, e, ev.script)
  ELSE F!Sign(ev.priv, e, ev.script)
\* bytes the call took from the source: the per-call log, or the executor's total when the log was too long to keep
Consumed(ev) == IF Len(ev.reads) = 0 /\ "reads_total" \in DOMAIN ev THEN ev.reads_total ELSE R!Delivered(ev.reads)
\* run {d, n}: n copies of ONE candidate delivered in front of the script.  A candidate's verdict is a function of
\* (key, digest, candidate), so a rejected candidate is rejected n times: the loop's outcome is its outcome on the
\* remaining script, with n more candidates tried and 32 n more bytes consumed (a run whose candidate is NOT rejected
\* ends the call at its first copy).  This keeps streams with tens of thousands of rejected candidates checkable.
RunN(ev) == IF "run" \in DOMAIN ev THEN ev.run.n ELSE 0
SignOK(ev, e) ==
  LET runRejected == RunN(ev) > 0 /\ C!S!Attempt(ev.priv, e, ev.run.d).skip
      f == IF RunN(ev) > 0 /\ ~runRejected THEN F!Sign(ev.priv, e, <<[d |-> ev.run.d, err |-> ""]>>) ELSE FlowSign(ev, e)
      extra == IF runRejected THEN 32 * RunN(ev) ELSE 0
      consumed == Consumed(ev) - extra
  IN IF ~KeyOK(ev.priv)
     THEN \* refused keys: error, nothing returned, nothing drawn.  (A longer-than-32-byte
          \* encoding of a valid value may be refused or honoured.)
          IF Len(ev.priv) > 32 /\ ValidNum(ev.priv) /\ ev.err = ""
          THEN f.kind = "sig" /\ ev.r = B32(f.r) /\ ev.s = B32(f.s)
          ELSE ev.err # "" /\ ev.nil_out          \* (whether anything was drawn before the refusal is not prescribed)
     ELSE IF Len(ev.priv) < 32 /\ ev.err # "" THEN ev.nil_out    \* short encodings may be refused
     ELSE CASE f.kind = "sig" -> /\ ev.err = "" /\ ev.r = B32(f.r) /\ ev.s = B32(f.s)
                                 /\ consumed = R!Delivered(f.log) /\ consumed = 32 * f.tries
            [] f.kind = "err" -> ev.err # "" /\ ev.nil_out /\ consumed = R!Delivered(f.log)
            [] OTHER -> FALSE
\* which rejection rules the definition applied to the candidates of this stream
RuleTrail(ev, e) ==
  LET RECURSIVE T(_, _)
      T(sc, acc) == LET rf == R!ReadFull(sc, 32, <<>>)
                    IN IF ~rf.ok THEN acc
                       ELSE LET a == IF "x1" \in DOMAIN ev THEN C!S!AttemptInjected(ev.priv, e, rf.data, ev.x1)
                                     ELSE C!S!Attempt(ev.priv, e, rf.data)
                            IN IF a.skip THEN T(rf.sc, acc \o a.why \o ",") ELSE acc \o "ok"
  IN T(ev.script, "")

SignWhy(ev, e) ==
  LET f == FlowSign(ev, e)
  IN IF ev.panic # "" THEN "sign: panic"
     ELSE IF ~KeyOK(ev.priv) THEN "sign: invalid key not refused"
     ELSE IF f.kind = "err" THEN "sign: reader failure mishandled"
     ELSE IF ev.err # "" THEN "sign: unexpected error"
     ELSE IF R!Delivered(ev.reads) # R!Delivered(f.log) THEN "sign: bytes consumed / rejection rule " \o RuleTrail(ev, e)
     ELSE "sign: value of (r, s)"
VerifyOK(ev, e) ==
  LET lens == Len(ev.pubx) = 32 /\ Len(ev.puby) = 32 /\ Len(e) = 32 /\ Len(ev.r) = 32 /\ Len(ev.s) = 32
      exp == lens /\ C!S!VerifyDef(ev.pubx, ev.puby, e, ev.r, ev.s)
  IN ev.panic = "" /\ ev.ok = exp

Expect(s, ev) ==
  CASE ev.op = "sm2.testpriv" ->
         LET v == ValidNum(ev.priv)
             okv == IF Len(ev.priv) = 32 THEN (ev.res = 0) <=> v ELSE (ev.res = 0) => v
         IN [st |-> s, ok |-> ev.panic = "" /\ okv /\ ev.priv_after = ev.priv,
             why |-> "testpriv: verdict for value " \o (IF v THEN "inside" ELSE "outside") \o " [1,n-2]"]
    [] ev.op = "sm2.derivepublic" ->
         LET pt == C!S!Mul(ev.priv, C!S!G)
             good == ev.err = "" => (/\ Len(ev.priv) <= 32 /\ ~C!E!IsInf(pt)
                                     /\ ev.x = B32(pt[1]) /\ ev.y = B32(pt[2]))
             must == (Len(ev.priv) = 32 /\ ValidNum(ev.priv)) => ev.err = ""
         IN [st |-> s, ok |-> ev.panic = "" /\ good /\ must /\ ev.priv_after = ev.priv,
             why |-> IF ev.panic # "" THEN "derivepublic: panic" ELSE "derivepublic: value"]
    [] ev.op = "sm2.checkoncurve" ->
         LET exp == Len(ev.x) = 32 /\ Len(ev.y) = 32 /\ C!E!OnCurveXY(ev.x, ev.y)
         IN [st |-> s, ok |-> ev.panic = "" /\ ev.ok = exp, why |-> "checkoncurve: verdict"]
    [] ev.op = "sm2.genkey" ->
         IF ev.nilreader
         THEN [st |-> s, ok |-> ev.panic = "" /\ ev.err # "" /\ ev.nil_out, why |-> "genkey: nil reader"]
         ELSE LET runRejected == RunN(ev) > 0 /\ ~ValidNum(ev.run.d)
                  g == IF RunN(ev) > 0 /\ ~runRejected THEN F!KeyGen(<<[d |-> ev.run.d, err |-> ""]>>) ELSE F!KeyGen(ev.script)
                  consumed == Consumed(ev) - (IF runRejected THEN 32 * RunN(ev) ELSE 0)
                  okc == consumed = R!Delivered(g.log)
                  okv == IF g.kind = "key"
                         THEN LET pt == C!S!Pub(g.d)
                              IN /\ ev.err = "" /\ ev.priv = g.d /\ ev.x = B32(pt[1]) /\ ev.y = B32(pt[2])
                                 /\ consumed = 32 * g.tries
                         ELSE ev.err # "" /\ ev.nil_out
              IN [st |-> s, ok |-> ev.panic = "" /\ okv /\ okc,
                  why |-> IF ev.panic # "" THEN "genkey: panic"
                          ELSE IF g.kind = "err" THEN "genkey: reader failure mishandled"
                          ELSE IF ~okc THEN "genkey: bytes consumed / rejection rule" ELSE "genkey: key or public point"]
    [] ev.op = "sm2.za" ->
         LET okE == (ev.err # "") <=> ~IdOKev(ev)
             okV == IdOKev(ev) => ev.za = ZAof(ev.id, ev.pubx, ev.puby)
         IN [st |-> s, ok |-> ev.panic = "" /\ okE /\ okV /\ InsSame(ev, <<ev.id, ev.pubx, ev.puby>>),
             why |-> IF ~okE THEN "za: id length limit" ELSE "za: value"]
    [] ev.op = "sm2.sign" ->
        (CASE ev.kind = "hashed" ->
                [st |-> s, ok |-> ev.panic = "" /\ SignOK(ev, ev.e) /\ InsSame(ev, <<ev.e>>) /\ ev.priv_after = ev.priv,
                 why |-> SignWhy(ev, ev.e)]
           [] ev.kind = "za" ->
                LET e == Eof(ev.za, ev.msg)
                IN [st |-> s, ok |-> ev.panic = "" /\ SignOK(ev, e) /\ InsSame(ev, <<ev.za, ev.msg>>),
                    why |-> "signza: " \o SignWhy(ev, e)]
           [] ev.kind = "id" ->
                IF ~IdOKev(ev)
                THEN [st |-> s, ok |-> ev.panic = "" /\ ev.err # "" /\ ev.nil_out,
                      why |-> "signid: id length limit"]
                ELSE LET e == Eof(ZAof(ev.id, ev.pubx, ev.puby), ev.msg)
                     IN [st |-> s, ok |-> ev.panic = "" /\ SignOK(ev, e)
                                           /\ InsSame(ev, <<ev.id, ev.pubx, ev.puby, ev.msg>>),
                         why |-> "signid: " \o SignWhy(ev, e)])
    [] ev.op = "sm2.signverify" ->
         \* C01: with a valid key and a non-failing reader the signer must produce the
         \* standard's signature and the matching verifier must accept it, without panic
         LET e == (CASE ev.kind = "hashed" -> ev.e
                     [] ev.kind = "za" -> Eof(ev.za, ev.msg)
                     [] ev.kind = "id" -> Eof(ZAof(ev.id, ev.pubx, ev.puby), ev.msg))
             pt == C!S!Pub(ev.priv)
             f == F!Sign(ev.priv, e, ev.script)
             okPub == ev.puberr = "" /\ ev.pubx = B32(pt[1]) /\ ev.puby = B32(pt[2])
             okSig == f.kind = "sig" => (ev.err = "" /\ ev.r = B32(f.r) /\ ev.s = B32(f.s))
             okVer == f.kind = "sig" => (ev.stage = "done" /\ ev.vok)
             \* the caller's buffers are as they were, and the same verification again says the same
             okIns == ev.puberr = "" => ev.sv_ins_after = ev.sv_ins
             okRep == f.kind = "sig" => ev.vok2
         IN [st |-> s, ok |-> ev.panic = "" /\ okPub /\ okSig /\ okVer /\ okIns /\ okRep,
             why |-> IF ev.panic # "" THEN "signverify: panic in " \o ev.stage
                     ELSE IF ~okPub THEN "signverify: public key"
                     ELSE IF ~okSig THEN "signverify: signature value"
                     ELSE IF ~okVer THEN "signverify: own signature rejected"
                     ELSE IF ~okIns THEN "signverify: an input buffer was modified"
                     ELSE "signverify: own signature rejected when verified again on the same buffers"]
    [] ev.op = "sm2.verify" ->
        (CASE ev.kind = "hashed" ->
                [st |-> s, ok |-> VerifyOK(ev, ev.e) /\ InsSame(ev, <<ev.pubx, ev.puby, ev.r, ev.s, ev.e>>),
                 why |-> IF ev.panic # "" THEN "verify: panic"
                         ELSE IF ev.ok THEN "verify: accepted what the standard rejects"
                         ELSE "verify: rejected what the standard accepts"]
           [] ev.kind = "za" ->
                [st |-> s, ok |-> VerifyOK(ev, Eof(ev.za, ev.msg)) /\ InsSame(ev, <<ev.pubx, ev.puby, ev.r, ev.s, ev.za, ev.msg>>),
                 why |-> IF ev.panic # "" THEN "verifyza: panic" ELSE "verifyza: verdict"]
           [] ev.kind = "id" ->
                IF ~IdOKev(ev)
                THEN [st |-> s, ok |-> ev.panic = "" /\ ~ev.ok, why |-> "verifyid: id length limit"]
                ELSE LET e == Eof(ZAof(ev.id, ev.pubx, ev.puby), ev.msg)
                         \* signatures produced by another implementation (OpenSSL) double as a
                         \* validation of this specification: it must accept them
                         specOK == ("other_impl" \in DOMAIN ev) =>
                                      C!S!VerifyDef(ev.pubx, ev.puby, e, ev.r, ev.s)
                     IN [st |-> s, ok |-> specOK /\ VerifyOK(ev, e)
                                          /\ InsSame(ev, <<ev.pubx, ev.puby, ev.r, ev.s, ev.id, ev.msg>>),
                         why |-> IF ~specOK THEN "specval: the specification rejects a signature made by OpenSSL"
                                 ELSE IF ev.panic # "" THEN "verifyid: panic" ELSE "verifyid: verdict"])

InitSt == <<>>
TC == INSTANCE TraceCommon
Spec == TC!Spec
Done == TC!Done
Post == TC!Post
=============================================================================
