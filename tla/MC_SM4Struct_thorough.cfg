SPECIFICATION Spec
CONSTANTS R = 4
          KeyStride = 1
INVARIANT Inverts
CHECK_DEADLOCK FALSE
