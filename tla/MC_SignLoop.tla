---------------------------- MODULE MC_SignLoop ----------------------------
(***************************************************************************)
(* Bounded refinement check that ties SignLoop (step-level loop, whose     *)
(* invariants Apalache discharges for unbounded retries and sources) to    *)
(* SignFlow / Reader (the operators the trace specs T_SM2 evaluate next to *)
(* the real code): every behaviour of SignLoop in which the source's Read  *)
(* results are recorded as a Reader script ends with the result, candidate *)
(* count and byte count that SignFlow computes on that script.             *)
(* Candidates carry their verdict in their first symbol (1 = accepted).    *)
(***************************************************************************)
EXTENDS Integers, Sequences, TLC
CONSTANTS Unit, Syms, MaxReads
VARIABLES pc, got, result, sawErr, clean, tested, drawn, script, cur
L == INSTANCE SignLoop
R == INSTANCE Reader
Accept(u) == u[1] = 1
F == INSTANCE SignFlow WITH ValidKey <- LAMBDA d : TRUE, ToNum <- LAMBDA d : d,
                            AttemptOp <- LAMBDA d, e, k : [skip |-> ~Accept(k), r |-> k, s |-> k]
vars == <<pc, got, result, sawErr, clean, tested, drawn, script, cur>>
Init == L!Init /\ script = <<>> /\ cur = <<>>
Chunks(n) == [1..n -> Syms]
ReadStep == /\ Len(script) < MaxReads
            /\ \E n \in 0..Unit, e \in BOOLEAN :
                 /\ L!Read(n, e)
                 /\ \E c \in Chunks(n) : /\ script' = Append(script, [d |-> c, err |-> IF e THEN "fault" ELSE ""])
                                         /\ cur' = cur \o c
TestStep == /\ L!Test(Accept(cur)) /\ cur' = (IF Accept(cur) THEN cur ELSE <<>>) /\ UNCHANGED script
Next == ReadStep \/ TestStep
Spec == Init /\ [][Next]_vars

Inv == L!IndInv
Refines ==
  pc = "done" =>
    LET f == F!Sign(<<1>>, <<>>, script)
    IN /\ (result = "out") = (f.kind = "sig") /\ (result = "err") = (f.kind = "err")
       /\ tested = f.tries /\ drawn = R!Delivered(f.log)
       /\ (result = "out" => f.r = cur)
\* a run cut short by MaxReads must agree with SignFlow on the prefix: SignFlow then sees EOF
PrefixRefines ==
  (pc = "draw" /\ Len(script) = MaxReads) =>
    LET f == F!Sign(<<1>>, <<>>, script) IN f.kind = "err" /\ tested = f.tries
=============================================================================
