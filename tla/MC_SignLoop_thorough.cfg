CONSTANTS Unit = 3  Syms = {0, 1}  MaxReads = 6
SPECIFICATION Spec
INVARIANTS Inv Refines PrefixRefines
CHECK_DEADLOCK FALSE
