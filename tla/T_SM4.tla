------------------------------- MODULE T_SM4 -------------------------------
(***************************************************************************)
(* Trace specification for C05: every recorded block operation - through   *)
(* the public cipher.Block (accelerated path on and off), through each     *)
(* vector kernel at every lane, through the portable one- and two-block    *)
(* code, with either key schedule - must equal the GB/T 32907 permutation  *)
(* (module SM4) applied lane by lane.                                      *)
(* Abstract state: handle -> key bytes the cipher was constructed from.    *)
(***************************************************************************)
EXTENDS Naturals, Sequences, TLC, Words
S4 == INSTANCE SM4
VARIABLES l, st, bad

Put(s, h, o) == [x \in (DOMAIN s) \cup {h} |-> IF x = h THEN o ELSE s[x]]

RKHalves(rk) == LET RECURSIVE F(_, _)
                    F(i, acc) == IF i > Len(rk) THEN acc ELSE F(i + 1, acc \o <<rk[i][1], rk[i][2]>>)
                IN F(1, <<>>)

\* lane-wise application to a string of whole blocks
RECURSIVE Lanes(_, _, _, _)
Lanes(rk, src, i, acc) ==
  IF i + 15 > Len(src) THEN acc
  ELSE Lanes(rk, src, i + 16, acc \o S4!CryptWithKeys(rk, SubSeq(src, i, i + 15)))

Expect(s, ev) ==
  CASE ev.op = "sm4.newcipher" ->
         LET good == Len(ev.key) = 16
             okErr == ev.panic = "" /\ ((ev.err = "") <=> good)
             okKind == good => (/\ ev.blocksize = 16
                                /\ (ev.asm /\ ev.asm_available) <=> ~ev.portable)
         IN [st |-> IF good /\ ev.err = "" THEN Put(s, ev.h, [rk |-> S4!RoundKeys(ev.key)]) ELSE s,
             ok |-> okErr /\ okKind /\ ev.key_after = ev.key,
             why |-> IF ~okErr THEN "newcipher: key length rule" ELSE "newcipher: dispatch / key slice modified"]
    [] ev.op = "sm4.scribblekey" -> [st |-> s, ok |-> TRUE, why |-> ""]
    [] ev.op = "sm4.crypt" ->
         LET rk == IF ev.dec THEN S4!Reverse(s[ev.h].rk) ELSE s[ev.h].rk
             \* cipher.Block: exactly the first block of src is processed into the first block of dst;
             \* whatever else the two slices hold stays (in place: the rest of src; otherwise the 0xA5 fill)
             \* (what an implementation does with the bytes of dst beyond the first block is not part of the
             \* property - a longer dst is inside "the byte ranges of its arguments" - so only the block is judged)
             one == S4!CryptWithKeys(rk, SubSeq(ev.src, 1, 16))
             got == SubSeq(ev.out, 1, 16)
         IN [st |-> s,
             ok |-> /\ ev.panic = "" /\ got = one
                    /\ (ev.inplace \/ ev.src_after = ev.src),
             why |-> IF got # one THEN "crypt: block value" ELSE "crypt: source modified / panic"]
    [] ev.op = "sm4.expandkey" ->
         LET rk == S4!RoundKeys(ev.key)
             e == RKHalves(rk)  d == RKHalves(S4!Reverse(rk))
         IN [st |-> s,
             ok |-> /\ ev.panic = "" /\ ev.go_enc = e /\ ev.go_dec = d
                    /\ ev.asm_enc = e /\ ev.asm_dec = d /\ ev.key_after = ev.key,
             why |-> IF ev.go_enc # e \/ ev.go_dec # d THEN "expandkey: portable schedule"
                     ELSE "expandkey: accelerated schedule"]
    [] ev.op = "sm4.kernel" ->
         LET rk0 == S4!RoundKeys(ev.key)
             rk == IF ev.dec THEN S4!Reverse(rk0) ELSE rk0
             exp == Lanes(rk, ev.src, 1, <<>>)
         IN [st |-> s,
             ok |-> ev.panic = "" /\ ev.out = exp /\ (ev.inplace \/ ev.src_after = ev.src),
             why |-> "kernel: lane values"]

InitSt == <<>>
TC == INSTANCE TraceCommon
Spec == TC!Spec
Done == TC!Done
Post == TC!Post
=============================================================================
