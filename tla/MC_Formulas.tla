----------------------------- MODULE MC_Formulas -----------------------------
(***************************************************************************)
(* C15, extracted programs: the Add and Double bodies extracted from       *)
(* sm2/internal/sm2_point.go are executed on a toy curve y^2 = x^3-3x+b    *)
(* for ALL pairs of points (including the point at infinity) in ALL        *)
(* projective representatives (every non-zero Z scaling of each operand;   *)
(* infinity as (0 : l : 0)) under every receiver-aliasing pattern, and the *)
(* result must represent the sum that the affine group law (module EC)     *)
(* gives and must satisfy the projective curve equation.                   *)
(***************************************************************************)
EXTENDS Integers, Sequences, FiniteSets, TLC
CONSTANTS P, B
A == P - 3
BigMode == FALSE
X == INSTANCE Extracted
E == INSTANCE EC
F == INSTANCE PointFormulas WITH Pm <- P

VARIABLES stage, p1, p2, l1, l2
Pts == {<<x, y>> \in (0..(P - 1)) \X (0..(P - 1)) : E!OnCurveXY(x, y)} \cup {E!Inf}
Init == stage = 0 /\ p1 = E!Inf /\ p2 = E!Inf /\ l1 = 1 /\ l2 = 1
Pick1 == stage = 0 /\ stage' = 1 /\ p1' \in Pts /\ UNCHANGED <<p2, l1, l2>>
Pick2 == stage = 1 /\ stage' = 2 /\ p2' \in Pts /\ l1' \in 1..(P - 1) /\ l2' \in 1..(P - 1) /\ UNCHANGED p1
Next == Pick1 \/ Pick2
Spec == Init /\ [][Next]_<<stage, p1, p2, l1, l2>>

\* projective representative (X : Y : Z) of a point, scaled by l
Proj(pt, l) == IF E!IsInf(pt) THEN <<0, l, 0>> ELSE <<(pt[1] * l) % P, (pt[2] * l) % P, l>>
Represents(r, pt) ==       \* does the projective triple r represent the affine point pt ?
  IF r[3] = 0 THEN E!IsInf(pt) /\ r[1] = 0 /\ r[2] # 0
  ELSE ~E!IsInf(pt) /\ r[1] = (pt[1] * r[3]) % P /\ r[2] = (pt[2] * r[3]) % P
OnProjCurve(r) ==          \* Y^2 Z = X^3 - 3 X Z^2 + b Z^3
  (r[2] * r[2] * r[3]) % P = (r[1] * r[1] * r[1] + (P - 3) * r[1] * r[3] * r[3] + B * r[3] * r[3] * r[3]) % P

AddInputs(a, b) == [r \in {"p1.x", "p1.y", "p1.z", "p2.x", "p2.y", "p2.z", "sm2B", "q.x", "q.y", "q.z"} |->
                      CASE r = "p1.x" -> a[1] [] r = "p1.y" -> a[2] [] r = "p1.z" -> a[3]
                        [] r = "p2.x" -> b[1] [] r = "p2.y" -> b[2] [] r = "p2.z" -> b[3]
                        [] r = "sm2B" -> B [] OTHER -> 7]
AliasNone == <<>>
AliasQP1 == [r \in {"q.x", "q.y", "q.z"} |-> CASE r = "q.x" -> "p1.x" [] r = "q.y" -> "p1.y" [] r = "q.z" -> "p1.z"]
AliasQP2 == [r \in {"q.x", "q.y", "q.z"} |-> CASE r = "q.x" -> "p2.x" [] r = "q.y" -> "p2.y" [] r = "q.z" -> "p2.z"]
\* q = p1 = p2 (one object): all three names resolve to p1's cells
AliasAll == [r \in {"q.x", "q.y", "q.z", "p2.x", "p2.y", "p2.z"} |->
               CASE r \in {"q.x", "p2.x"} -> "p1.x" [] r \in {"q.y", "p2.y"} -> "p1.y" [] OTHER -> "p1.z"]

RunAdd(a, b, alias) ==
  LET rf == F!Run(X!AddProg, 1, F!InitRf(X!AddProg, AddInputs(a, b)), alias)
  IN <<rf[F!Cell(alias, "q.x")], rf[F!Cell(alias, "q.y")], rf[F!Cell(alias, "q.z")]>>
DblInputs(a) == [r \in {"p.x", "p.y", "p.z", "sm2B", "q.x", "q.y", "q.z"} |->
                   CASE r = "p.x" -> a[1] [] r = "p.y" -> a[2] [] r = "p.z" -> a[3] [] r = "sm2B" -> B [] OTHER -> 7]
AliasQP == [r \in {"q.x", "q.y", "q.z"} |-> CASE r = "q.x" -> "p.x" [] r = "q.y" -> "p.y" [] r = "q.z" -> "p.z"]
RunDbl(a, alias) ==
  LET rf == F!Run(X!DoubleProg, 1, F!InitRf(X!DoubleProg, DblInputs(a)), alias)
  IN <<rf[F!Cell(alias, "q.x")], rf[F!Cell(alias, "q.y")], rf[F!Cell(alias, "q.z")]>>

AddComplete ==
  stage = 2 =>
    LET a == Proj(p1, l1)  b == Proj(p2, l2)  sum == E!AddPts(p1, p2)
    IN /\ \A al \in {AliasNone, AliasQP1, AliasQP2} :
             LET r == RunAdd(a, b, al) IN Represents(r, sum) /\ OnProjCurve(r)
       /\ (p1 = p2 /\ l1 = l2) => LET r == RunAdd(a, a, AliasAll) IN Represents(r, sum) /\ OnProjCurve(r)
DoubleComplete ==
  (stage = 2 /\ p2 = E!Inf /\ l2 = 1) =>
    LET a == Proj(p1, l1)  dbl == E!AddPts(p1, p1)
    IN \A al \in {AliasNone, AliasQP} : LET r == RunDbl(a, al) IN Represents(r, dbl) /\ OnProjCurve(r)
CurveIsPrimeOrder == stage = 0 => Cardinality(Pts) \in {17, 19, 31, 37}
=============================================================================
