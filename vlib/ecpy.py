"""SM2 curve arithmetic for the (untrusted) input generators: solving nonces, digests and
forged triples that land in a chosen class.  Never used as an oracle - TLC judges."""
P = 0xFFFFFFFEFFFFFFFFFFFFFFFFFFFFFFFFFFFFFFFF00000000FFFFFFFFFFFFFFFF
N = 0xFFFFFFFEFFFFFFFFFFFFFFFFFFFFFFFF7203DF6B21C6052B53BBF40939D54123
A = P - 3
B = 0x28E9FA9E9D9F5E344D5A9E4BCF6509A7F39789F515AB8F92DDBCBD414D940E93
G = (0x32C4AE2C1F1981195F9904466A39C9948FE30BBFF2660BE1715A4589334C74C7,
     0xBC3736A2F4F6779C59BDCEE36B692153D0A9877CC62A474002DF32E52139F0A0)


def add(p1, p2):
    if p1 is None:
        return p2
    if p2 is None:
        return p1
    x1, y1 = p1
    x2, y2 = p2
    if x1 == x2:
        if (y1 + y2) % P == 0:
            return None
        lam = (3 * x1 * x1 + A) * pow(2 * y1, -1, P) % P
    else:
        lam = (y2 - y1) * pow(x2 - x1, -1, P) % P
    x3 = (lam * lam - x1 - x2) % P
    return (x3, (lam * (x1 - x3) - y1) % P)


def neg(p):
    return None if p is None else (p[0], (-p[1]) % P)


def mul(k, p=G):
    k %= N
    acc = None
    for i in range(k.bit_length() - 1, -1, -1):
        acc = add(acc, acc)
        if (k >> i) & 1:
            acc = add(acc, p)
    return acc


def on_curve(x, y):
    return (y * y - (x * x * x + A * x + B)) % P == 0


def lift_x(x):
    """A y with (x, y) on the curve, or None (p = 3 mod 4)."""
    rhs = (x * x * x + A * x + B) % P
    y = pow(rhs, (P + 1) // 4, P)
    return y if y * y % P == rhs else None


def b32(v):
    return list((v % (1 << 256)).to_bytes(32, "big"))


def inv_n(x):
    return pow(x % N, -1, N)


# ---------------------------------------------------------------- points with a prescribed y
# roots of the cubic x^3 + A x + (B - y^2) over F_p (Cantor-Zassenhaus on the linear factors); used to
# build public keys whose y coordinate is small, so that y + p is a 32-byte NON-canonical encoding.

def _pmulmod(f, g, m):
    """product of polynomials (little-endian coefficient lists) modulo the monic polynomial m"""
    r = [0] * (len(f) + len(g) - 1)
    for i, a in enumerate(f):
        if a:
            for j, b in enumerate(g):
                r[i + j] = (r[i + j] + a * b) % P
    d = len(m) - 1
    for i in range(len(r) - 1, d - 1, -1):
        c = r[i]
        if c:
            for j in range(d + 1):
                r[i - d + j] = (r[i - d + j] - c * m[j]) % P
    r = r[:d]
    while r and r[-1] == 0:
        r.pop()
    return r


def _ppowmod(f, e, m):
    r = [1]
    while e:
        if e & 1:
            r = _pmulmod(r, f, m)
        f = _pmulmod(f, f, m)
        e >>= 1
    return r


def _pgcd(f, g):
    f, g = list(f), list(g)
    while g:
        # f mod g
        inv = pow(g[-1], -1, P)
        g = [c * inv % P for c in g]
        while len(f) >= len(g):
            c = f[-1]
            if c:
                sh = len(f) - len(g)
                for j in range(len(g)):
                    f[sh + j] = (f[sh + j] - c * g[j]) % P
            f.pop()
        while f and f[-1] == 0:
            f.pop()
        f, g = g, f
    if f:
        inv = pow(f[-1], -1, P)
        f = [c * inv % P for c in f]
    return f


def xs_for_y(y, rng):
    """all x with (x, y) on the curve"""
    f = [(B - y * y) % P, A % P, 0, 1]
    xp = _ppowmod([0, 1], P, f)                       # x^p mod f
    xp = xp + [0] * (2 - len(xp)) if len(xp) < 2 else xp
    xp[1] = (xp[1] - 1) % P
    while xp and xp[-1] == 0:
        xp.pop()
    g = _pgcd(f, xp) if xp else f                     # product of the linear factors
    roots, todo = [], [g]
    while todo:
        h = todo.pop()
        if len(h) <= 1:
            continue
        if len(h) == 2:
            roots.append((-h[0]) % P)
            continue
        for _ in range(200):
            c = rng.randrange(P)
            t = _ppowmod([c, 1], (P - 1) // 2, h)
            t = t + [0] * (1 - len(t)) if not t else t
            t[0] = (t[0] - 1) % P
            while t and t[-1] == 0:
                t.pop()
            d = _pgcd(h, t) if t else h
            if 1 < len(d) < len(h):
                # quotient h / d
                q, rem = [], list(h)
                while len(rem) >= len(d):
                    c2 = rem[-1]
                    q.append(c2)
                    sh = len(rem) - len(d)
                    for j in range(len(d)):
                        rem[sh + j] = (rem[sh + j] - c2 * d[j]) % P
                    rem.pop()
                q.reverse()
                todo += [d, q]
                break
    return sorted(x for x in set(roots) if on_curve(x, y))
