"""SM2 curve arithmetic for the (untrusted) input generators: solving nonces, digests and
forged triples that land in a chosen class.  Never used as an oracle - TLC judges."""
P = 0xFFFFFFFEFFFFFFFFFFFFFFFFFFFFFFFFFFFFFFFF00000000FFFFFFFFFFFFFFFF
N = 0xFFFFFFFEFFFFFFFFFFFFFFFFFFFFFFFF7203DF6B21C6052B53BBF40939D54123
A = P - 3
B = 0x28E9FA9E9D9F5E344D5A9E4BCF6509A7F39789F515AB8F92DDBCBD414D940E93
G = (0x32C4AE2C1F1981195F9904466A39C9948FE30BBFF2660BE1715A4589334C74C7,
     0xBC3736A2F4F6779C59BDCEE36B692153D0A9877CC62A474002DF32E52139F0A0)


def add(p1, p2):
    if p1 is None:
        return p2
    if p2 is None:
        return p1
    x1, y1 = p1
    x2, y2 = p2
    if x1 == x2:
        if (y1 + y2) % P == 0:
            return None
        lam = (3 * x1 * x1 + A) * pow(2 * y1, -1, P) % P
    else:
        lam = (y2 - y1) * pow(x2 - x1, -1, P) % P
    x3 = (lam * lam - x1 - x2) % P
    return (x3, (lam * (x1 - x3) - y1) % P)


def neg(p):
    return None if p is None else (p[0], (-p[1]) % P)


def mul(k, p=G):
    k %= N
    acc = None
    for i in range(k.bit_length() - 1, -1, -1):
        acc = add(acc, acc)
        if (k >> i) & 1:
            acc = add(acc, p)
    return acc


def on_curve(x, y):
    return (y * y - (x * x * x + A * x + B)) % P == 0


def lift_x(x):
    """A y with (x, y) on the curve, or None (p = 3 mod 4)."""
    rhs = (x * x * x + A * x + B) % P
    y = pow(rhs, (P + 1) // 4, P)
    return y if y * y % P == rhs else None


def b32(v):
    return list((v % (1 << 256)).to_bytes(32, "big"))


def inv_n(x):
    return pow(x % N, -1, N)
