"""Shared plumbing of the checks: run directory, harness build, TLC runs (exhaustive models and
trace validation), known-findings matching, evidence.

Exit codes used by bin/check: 0 held / 1 VIOLATION / 2 infrastructure (never a violation)."""
import atexit, json, os, random, re, shutil, signal, subprocess, sys, time, hashlib

VERIF = os.path.dirname(os.path.dirname(os.path.abspath(__file__)))
REPO = os.environ.get("VERIF_REPO", "/repo")
TLA = os.path.join(VERIF, "tla")
JAR = "/opt/veriftools/tla/tla2tools.jar"
CMJAR = "/opt/veriftools/tla/CommunityModules-deps.jar"
OVR = os.path.join(VERIF, "tla", "overrides", "classes")
NCPU = os.cpu_count() or 4

GOENV = dict(os.environ, GOFLAGS="-mod=mod", GOPROXY="off", GOSUMDB="off", GOTOOLCHAIN="local",
             GOCACHE=os.environ.get("GOCACHE", os.path.expanduser("~/.cache/go-build")))


class Infra(Exception):
    """Infrastructure problem: exit 2, never reported as a violation."""


def seed():
    try:
        return int(os.environ.get("VERIF_SEED", "1"))
    except ValueError:
        return 1


_rundir = None


def rundir(pid_tag):
    global _rundir
    if _rundir is None:
        d = os.path.join(VERIF, ".run", "%s.%d" % (pid_tag, os.getpid()))
        os.makedirs(d, exist_ok=True)
        _rundir = d
        if not os.environ.get("VERIF_KEEP"):
            atexit.register(lambda: shutil.rmtree(d, ignore_errors=True))
    return _rundir


def sh(cmd, cwd=None, env=None, timeout=None, check=True):
    p = subprocess.run(cmd, cwd=cwd, env=env, timeout=timeout, stdout=subprocess.PIPE,
                       stderr=subprocess.STDOUT, text=True)
    if check and p.returncode != 0:
        raise Infra("command failed (%d): %s\n%s" % (p.returncode, " ".join(map(str, cmd)), p.stdout[-4000:]))
    return p


# ------------------------------------------------------------------ harness

def build_driver(rd, tags="verif", race=False, name="drv"):
    """Builds harness/drv against REPO's current working tree with the hook tag on."""
    modfile = os.path.join(rd, "go.mod")
    with open(os.path.join(VERIF, "harness", "go.mod.tmpl")) as f:
        txt = f.read().replace("@REPO@", REPO)
    with open(modfile, "w") as f:
        f.write(txt)
    shutil.copy(os.path.join(REPO, "go.sum"), os.path.join(rd, "go.sum"))
    out = os.path.join(rd, name)
    cmd = ["go", "build", "-modfile=" + modfile, "-tags", tags, "-o", out]
    if race:
        cmd.insert(2, "-race")
    cmd.append("./drv")
    p = sh(cmd, cwd=os.path.join(VERIF, "harness"), env=GOENV, check=False, timeout=900)
    if p.returncode != 0:
        raise Infra("harness build failed:\n" + p.stdout[-4000:])
    return out


def run_driver(drv, cmds, rd, tag="t", timeout=1800, env=None):
    """Executes commands (list of dict) on the real code; returns the list of events."""
    cf = os.path.join(rd, tag + ".cmds.ndjson")
    ef = os.path.join(rd, tag + ".events.ndjson")
    with open(cf, "w") as f:
        for c in cmds:
            f.write(json.dumps(c, separators=(",", ":")) + "\n")
    e = dict(os.environ)
    if env:
        e.update(env)
    evs, rest, crashes = [], list(cmds), 0
    while rest:
        with open(cf, "w") as f:
            for c in rest:
                f.write(json.dumps(c, separators=(",", ":")) + "\n")
        try:
            p = sh([drv, "exec", cf, ef], timeout=timeout, check=False, env=e)
            rc, out = p.returncode, p.stdout
        except subprocess.TimeoutExpired:
            rc, out = 4, "no progress within %d s" % timeout
        got = []
        if os.path.exists(ef):
            with open(ef) as f:
                for line in f:
                    try:
                        got.append(json.loads(line))
                    except ValueError:
                        break                      # a torn last line
        if rc == 0:
            if len(got) != len(rest):
                raise Infra("driver produced %d events for %d commands" % (len(got), len(rest)))
            evs += got
            break
        if rc == 3 or len(got) >= len(rest):
            raise Infra("driver refused its input (%d):\n%s" % (rc, out[-3000:]))
        # The process died (fatal error, unrecoverable fault, os.Exit in the library) or a call did not return
        # (exit 4 of the watchdog): the call that was running is command number len(got).  It is recorded as an
        # event of its own - the trace specifications judge "did not return" like a panic - and the run resumes
        # with the next scenario in a fresh process.
        crashes += 1
        k = len(got)
        culprit = dict(rest[k])
        reason = ("did not return (watchdog)" if rc == 4 else "process died with exit status %d" % rc)
        tail = [l for l in out.splitlines() if l.strip()][:1] if rc != 4 else []
        culprit.update(panic="call did not return", fault=False, crashed=reason + (": " + tail[0][:200] if tail else ""))
        evs += got + [culprit]
        sc = rest[k].get("sc")
        j = k + 1
        while j < len(rest) and rest[j].get("sc") == sc and rest[j].get("op") != "scenario":
            j += 1
        rest = rest[j:]
        if crashes >= 6:      # enough evidence: the remaining commands are not executed (their scenarios are dropped)
            break
    return evs


# ------------------------------------------------------------------ TLC

def _java_cmd(accel, xmx="3g", extra_props=(), gcthreads=2, level="full"):
    cp = [JAR, CMJAR]
    if accel:
        if not os.path.isdir(OVR):
            raise Infra("accelerator classes missing: run bin/setup.sh")
        cp.append(OVR)
        extra_props = list(extra_props) + ["-Dtlc2.overrides.TLCOverrides=tlc2.overrides.TLCOverrides:VerifOverrides" + ("L1" if level == "L1" else "")]
    return (["java", "-XX:+UseParallelGC", "-XX:ParallelGCThreads=%d" % gcthreads, "-Xss512m", "-Xmx" + xmx] + list(extra_props) +
            ["-cp", ":".join(cp), "tlc2.TLC"])


def stage_specs(rd):
    """Copies the TLA+ sources into the run directory (TLC litters its working directory)."""
    d = os.path.join(rd, "tla")
    if not os.path.isdir(d):
        os.makedirs(d)
        for fn in os.listdir(TLA):
            if fn.endswith(".tla") or fn.endswith(".cfg"):
                shutil.copy(os.path.join(TLA, fn), d)
    return d


def apalache_inductive(rd, module, init="Init", indinit="IndInit", inv="IndInv", cinit=None, timeout=600):
    """Discharges an inductive invariant with Apalache: Init => Inv (length 0) and
    IndInit /\\ Next => Inv' (length 1).  Returns dict(ok, steps=[...]); ok is None when Apalache is
    missing or did not finish (the caller records that - it is never a verdict about the code: the
    models checked this way are design-level)."""
    d = stage_specs(rd)
    exe = shutil.which("apalache-mc")
    if not exe:
        return dict(ok=None, steps=[], note="apalache-mc not on PATH")
    out = os.path.join(rd, "apalache_%s_%d" % (module, random.randrange(1 << 30)))
    steps, ok = [], True
    e = dict(os.environ)
    e.pop("JAVA_TOOL_OPTIONS", None)
    for (i, length) in ((init, 0), (indinit, 1)):
        cmd = [exe, "check", "--out-dir=" + out, "--init=" + i, "--inv=" + inv, "--length=%d" % length]
        if cinit:
            cmd.append("--cinit=" + cinit)
        cmd.append(module + ".tla")
        t0 = time.time()
        try:
            p = sh(cmd, cwd=d, env=e, timeout=timeout, check=False)
            txt = p.stdout
        except subprocess.TimeoutExpired:
            return dict(ok=None, steps=steps, note="apalache timed out")
        res = "ok" if "EXITCODE: OK" in txt else ("violation" if "EXITCODE: ERROR (12)" in txt else "error")
        steps.append(dict(init=i, length=length, result=res, wall_s=round(time.time() - t0, 1)))
        if res == "error":
            return dict(ok=None, steps=steps, note=txt[-1500:])
        if res == "violation":
            ok = False
    shutil.rmtree(out, ignore_errors=True)
    return dict(ok=ok, steps=steps)


def tlaps(rd, module, timeout=900, threads=8):
    """Checks a TLAPS proof module with tlapm (fresh cache).  Returns dict(ok, obligations, wall_s); ok is None
    when tlapm is missing or did not finish - that decides nothing (the proofs are about design-level modules)."""
    d = stage_specs(rd)
    exe = shutil.which("tlapm")
    if not exe:
        return dict(ok=None, note="tlapm not on PATH")
    shutil.rmtree(os.path.join(d, ".tlacache", module + ".tlaps"), ignore_errors=True)
    e = dict(os.environ)
    e.pop("JAVA_TOOL_OPTIONS", None)
    t0 = time.time()
    try:
        p = sh([exe, "--threads", str(threads), "--cleanfp", module + ".tla"], cwd=d, env=e, timeout=timeout, check=False)
    except subprocess.TimeoutExpired:
        return dict(ok=None, note="tlapm timed out")
    m = re.search(r"All (\d+) obligations? proved", p.stdout)
    if m:
        return dict(ok=True, obligations=int(m.group(1)), wall_s=round(time.time() - t0, 1))
    m = re.search(r"(\d+)/(\d+) obligations failed", p.stdout)
    if m:
        return dict(ok=False, obligations=int(m.group(2)), failed=int(m.group(1)), wall_s=round(time.time() - t0, 1))
    return dict(ok=None, note=p.stdout[-800:])


_summary_re = re.compile(r"(\d+) states generated, (\d+) distinct states found")


def tlc_mc(rd, module, cfg=None, workers=None, timeout=1800, accel=False, env=None, xmx="12g",
           extra=(), allow_violation=False):
    """Runs an exhaustive model; returns dict(states, distinct, out, ok).  A failing model is an
    infrastructure problem for the caller to interpret (design models never yield a VIOLATION by
    themselves; extracted-program models do, and pass allow_violation=True)."""
    d = stage_specs(rd)
    md = os.path.join(rd, "md_%s_%d" % (module, random.randrange(1 << 30)))
    cmd = _java_cmd(accel, xmx, gcthreads=8) + ["-metadir", md, "-workers", str(workers or NCPU), "-nowarning"]
    if cfg:
        cmd += ["-config", cfg]
    cmd += list(extra) + [module + ".tla"]
    e = dict(os.environ)
    e.pop("JAVA_TOOL_OPTIONS", None)
    if env:
        e.update(env)
    t0 = time.time()
    try:
        p = subprocess.run(cmd, cwd=d, env=e, timeout=timeout, stdout=subprocess.PIPE,
                           stderr=subprocess.STDOUT, text=True)
    except subprocess.TimeoutExpired:
        raise Infra("TLC timed out on %s" % module)
    finally:
        shutil.rmtree(md, ignore_errors=True)
    out = p.stdout
    m = _summary_re.search(out)
    ok = p.returncode == 0 and "Model checking completed. No error has been found." in out
    res = dict(ok=ok, rc=p.returncode, out=out, wall=time.time() - t0,
               generated=int(m.group(1)) if m else 0, distinct=int(m.group(2)) if m else 0)
    if not ok and not allow_violation:
        raise Infra("model %s failed (rc %d):\n%s" % (module, p.returncode, _tail(out)))
    return res


def _tail(out, n=40):
    lines = [l for l in out.splitlines() if not re.match(r"^(Parsing|Semantic|Linting) ", l)]
    return "\n".join(lines[-n:])


def scenario_groups(events):
    """Splits an event list into scenarios (each starts with op == 'scenario')."""
    groups, cur = [], None
    for ev in events:
        if ev.get("op") == "scenario":
            cur = [ev]
            groups.append(cur)
        else:
            if cur is None:
                cur = []
                groups.append(cur)
            cur.append(ev)
    return groups


def validate(rd, module, events, shards=None, accel=False, timeout=3000, cost=None, xmx="3g",
             env=None):
    """Trace validation: TLC recomputes every logged result from the logged inputs with the
    specification module `module` (tla/<module>.tla + .cfg).  Returns (bad, stats): bad is a
    list of dicts {sc, l, why, ev}; stats has the number of events/scenarios validated and TLC
    state counts.  Scenarios are distributed over parallel single-worker TLC processes."""
    d = stage_specs(rd)
    groups = scenario_groups(events)
    if not groups:
        return [], dict(events=0, scenarios=0, states=0)
    shards = min(shards or NCPU, len(groups))
    cost = cost or (lambda g: sum(len(json.dumps(e)) for e in g))
    order = sorted(range(len(groups)), key=lambda i: -cost(groups[i]))
    bins = [[] for _ in range(shards)]
    load = [0] * shards
    for i in order:
        j = load.index(min(load))
        bins[j].append(i)
        load[j] += cost(groups[i])
    procs = []
    tagbase = "%s_%d" % (module, random.randrange(1 << 30))
    for j, b in enumerate(bins):
        b.sort()
        tf = os.path.join(rd, "%s.%d.trace.ndjson" % (tagbase, j))
        of = os.path.join(rd, "%s.%d.out.json" % (tagbase, j))
        lines = []
        with open(tf, "w") as f:
            for i in b:
                for ev in groups[i]:
                    f.write(json.dumps(ev, separators=(",", ":")) + "\n")
                    lines.append(ev)
        md = os.path.join(rd, "md_%s_%d" % (tagbase, j))
        cmd = _java_cmd(accel, xmx) + ["-metadir", md, "-workers", "1", "-nowarning",
                                       "-config", module + ".cfg", module + ".tla"]
        e = dict(os.environ)
        e.pop("JAVA_TOOL_OPTIONS", None)
        e["VERIF_TRACE"] = tf
        e["VERIF_OUT"] = of
        if env:
            e.update(env)
        lf = open(os.path.join(rd, "%s.%d.log" % (tagbase, j)), "w")
        p = subprocess.Popen(cmd, cwd=d, env=e, stdout=lf, stderr=subprocess.STDOUT)
        procs.append((p, tf, of, md, lines, lf))
    bad, nstates = [], 0
    deadline = time.time() + timeout
    err = None
    for p, tf, of, md, lines, lf in procs:
        try:
            p.wait(timeout=max(1, deadline - time.time()))
        except subprocess.TimeoutExpired:
            p.kill()
            err = err or "trace validation timed out (%s)" % module
        lf.close()
        shutil.rmtree(md, ignore_errors=True)
        if err:
            continue
        log = open(lf.name).read()
        if p.returncode != 0 or not os.path.exists(of):
            err = "TLC failed validating %s (rc %s):\n%s" % (module, p.returncode, _tail(log))
            continue
        res = json.load(open(of))
        if res.get("reached") != len(lines) or res.get("n") != len(lines):
            err = "TLC stopped early on %s: reached %s of %d" % (module, res.get("reached"), len(lines))
            continue
        nstates += len(lines) + 1
        for b_ in res.get("bad", []):
            ev = lines[b_["l"] - 1]
            bad.append(dict(sc=ev.get("sc"), l=b_["l"], why=b_.get("why", ""), ev=ev, shard_file=tf))
    if err:
        for p, *_ in procs:
            if p.poll() is None:
                p.kill()
        raise Infra(err)
    return bad, dict(events=len(events), scenarios=len(groups), states=nstates)


# ------------------------------------------------------------------ findings / evidence

def load_known():
    path = os.path.join(VERIF, "known_findings.jsonl")
    out = []
    if os.path.exists(path):
        for line in open(path):
            line = line.strip()
            if line and not line.startswith("#"):
                out.append(json.loads(line))
    return out


def write_replay(prop, key, scenario_events, extra=None):
    d = os.environ.get("VERIF_REPLAY_DIR") or os.path.join(VERIF, "replays")
    os.makedirs(d, exist_ok=True)
    h = hashlib.sha256(json.dumps(scenario_events, sort_keys=True).encode()).hexdigest()[:10]
    path = os.path.join(d, "%s_%s_%s.json" % (prop, re.sub(r"[^A-Za-z0-9_.-]", "_", key)[:60], h))
    with open(path, "w") as f:
        json.dump(dict(property=prop, key=key, commands=scenario_events, extra=extra or {}), f)
    return path


def write_evidence(prop, tier, level, coverage, assumptions, wall, violations):
    # development aid (bin/seedtest sweep): runs against a scratch tree keep their evidence out of /verif/evidence
    edir = os.environ.get("VERIF_EVIDENCE_DIR") or os.path.join(VERIF, "evidence")
    os.makedirs(edir, exist_ok=True)
    ev = dict(property_id=prop, tier=tier, seed=seed(), level=level, coverage=coverage,
              assumptions=assumptions, wall_s=round(wall, 2), violations=violations)
    with open(os.path.join(edir, prop + ".json"), "w") as f:
        json.dump(ev, f, indent=1)


def strip_results(ev, result_keys):
    return {k: v for k, v in ev.items() if k not in result_keys}
