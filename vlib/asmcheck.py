"""Runs the TLA+ abstract machine (tla/AsmMachine.tla) on routines extracted from the current
tree, one TLC process per routine, and parses the per-context verdicts."""
import os, re, shutil, subprocess, random, time
from . import core, asmx

RODATA_FILES = ["com_amd64.s", "asm_amd64.s", "gcm_amd64.s", "helper_amd64.s"]


def P(n):
    return '[t |-> "pub", r |-> "", v |-> %d]' % n


def Q(r, o=0):
    return '[t |-> "ptr", r |-> "%s", v |-> %d]' % (r, o)


def ctx_tla(name, slots, regions, retfrom, secbr, rodata, trace=()):
    sl = " @@ ".join("%d :> %s" % (k, v) for k, v in sorted(slots.items()))
    regs = dict(regions)
    for sym, size in rodata.items():
        regs[sym] = (size, False, False)
    rg = " @@ ".join('"%s" :> [size |-> %d, sec |-> %s, wr |-> %s]' % (
        k, v[0], "TRUE" if v[1] else "FALSE", "TRUE" if v[2] else "FALSE") for k, v in sorted(regs.items()))
    return '[name |-> "%s", slots |-> (%s), regions |-> (%s), retfrom |-> %d, secbr |-> %d, trace |-> << %s >>]' % (
        name, sl, rg, retfrom, secbr, ", ".join(map(str, trace)))


# ---- call contexts per routine: (name, slots, regions{name: (size, secret, writable)}, retfrom, secbr)

def ctx_kernel(nblocks):
    n = 16 * nblocks
    return [("blocks=%d" % nblocks, {0: Q("rk"), 8: Q("dst"), 16: Q("src")},
             {"rk": (128, True, False), "dst": (n, True, True), "src": (n, True, False)}, 24, 0)]


def ctx_expandkey():
    return [("key", {0: Q("key"), 8: Q("enc"), 16: Q("dec")},
             {"key": (16, True, False), "enc": (128, True, True), "dec": (128, True, True)}, 24, 0)]


def ctx_copy(lens):
    return [("len=%d" % L, {0: Q("dst"), 8: Q("src"), 16: P(L)},
             {"dst": (L, True, True), "src": (L, True, False)}, 24, 0) for L in lens]


def ctx_needexpand(cases):
    return [("len=%d,cap=%d,asked=%d" % c, {0: Q("array"), 8: P(c[0]), 16: P(c[1]), 24: P(c[2])},
             {"array": (c[1], True, False)}, 32, 0) for c in cases]


def ctx_ghash(counts):
    return [("blocks=%d" % c, {0: Q("H"), 8: Q("tag"), 16: Q("data"), 24: P(c)},
             {"H": (16, True, False), "tag": (16, True, True), "data": (16 * c, True, False)}, 32, 0) for c in counts]


def ctx_gcm(vectors, open_):
    out = []
    for (tl, al, nl, ts) in vectors:
        if open_:
            regions = {"rk": (128, True, False), "dst": (tl, True, True), "nonce": (nl, True, False),
                       "ct": (tl + ts, True, False), "aad": (al, True, False), "temp": (32, True, True)}
            slots = {0: Q("rk"), 8: P(ts), 16: Q("dst"), 24: Q("nonce"), 32: P(nl), 40: P(nl), 48: Q("ct"),
                     56: P(tl + ts), 64: P(tl + ts), 72: Q("aad"), 80: P(al), 88: P(al), 96: Q("temp")}
        else:
            regions = {"rk": (128, True, False), "dst": (tl + ts, True, True), "nonce": (nl, True, False),
                       "pt": (tl, True, False), "aad": (al, True, False), "temp": (32, True, True)}
            slots = {0: Q("rk"), 8: P(ts), 16: Q("dst"), 24: Q("nonce"), 32: P(nl), 40: P(nl), 48: Q("pt"),
                     56: P(tl), 64: P(tl), 72: Q("aad"), 80: P(al), 88: P(al), 96: Q("temp")}
        out.append(("text=%d,aad=%d,nonce=%d,tag=%d" % (tl, al, nl, ts), slots, regions, 104, 1 if open_ else 0))
    return out


def ctx_arm64_x16():
    # cryptoBlockAsmX16Internal(rk, dst, src, tmp) as its only caller uses it: tmp = dst (256 bytes)
    return [("blocks=16,tmp=dst", {0: Q("rk"), 8: Q("dst"), 16: Q("src"), 24: Q("dst")},
             {"rk": (128, True, False), "dst": (256, True, True), "src": (256, True, False)}, 32, 0)]


def ctx_xor(n):
    return [("xor%d" % n, {0: Q("dst"), 8: Q("src1"), 16: Q("src2")},
             {"dst": (n, True, True), "src1": (n, True, False), "src2": (n, True, False)}, 24, 0)]


def build_target(chk):
    """asmtarget binary + symbol table (for the ptrace PC traces)"""
    if "_asmtarget" in chk.extra:
        return chk.extra["_asmtarget"]
    chk.drv()
    out = os.path.join(chk.rd, "asmtarget")
    p = core.sh(["go", "build", "-modfile=" + os.path.join(chk.rd, "go.mod"), "-tags", "verif", "-o", out, "./asmtarget"],
                cwd=os.path.join(core.VERIF, "harness"), env=core.GOENV, check=False, timeout=600)
    if p.returncode != 0:
        raise core.Infra("asmtarget build failed:\n" + p.stdout[-2000:])
    q = subprocess.run(["go", "tool", "nm", "-n", "-size", out], capture_output=True, text=True, env=core.GOENV)
    syms = {}
    for line in q.stdout.splitlines():
        f = line.split()
        if len(f) >= 4 and f[3].startswith("github.com/bilibili/smgo/sm4.") and f[3].endswith(".abi0"):
            syms[f[3].split(".")[-2]] = (f[0], f[1])
    chk.extra["_asmtarget"] = (out, syms)
    return out, syms


def cpu_trace(chk, routine, prog, args):
    """PC trace of the real routine as 1-based instruction indices of `prog`"""
    out, syms = build_target(chk)
    if routine not in syms:
        raise core.Infra("symbol %s not in the target binary" % routine)
    lo, size = syms[routine]
    p = subprocess.run([chk.drv(), "asmtrace", lo, size, out] + [str(a) for a in args], capture_output=True, text=True,
                       timeout=300)
    if p.returncode != 0:
        raise core.Infra("asmtrace failed for %s %s: %s" % (routine, args, p.stderr[-300:]))
    import json as _j
    pcs = _j.loads(p.stdout)
    idx = {}
    for i, ins in enumerate(prog):
        idx.setdefault(ins["pc"], i + 1)
    try:
        return [idx[x] for x in pcs]
    except KeyError as e:
        raise core.Infra("CPU executed pc %s of %s which is not an instruction boundary of the listing" % (e, routine))


def program(chk, fname, routine, arch="amd64"):
    progs = chk.extra.setdefault("_asm_progs", {})
    if fname not in progs:
        progs[fname] = asmx.routines(os.path.join(core.REPO, "sm4", fname), arch)
    return progs[fname][routine]


def run_routine(chk, fname, routine, contexts, workers=4, timeout=1800, maxsteps=400000, arch="amd64"):
    """-> list of dict(ctx, steps, errs[list], acc{region: (rlo, rhi, wlo, whi)}, nsb)"""
    progs = chk.extra.setdefault("_asm_progs", {})
    if fname not in progs:
        progs[fname] = asmx.routines(os.path.join(core.REPO, "sm4", fname), arch)
    chk.extra.pop("_asm_progs_keep", None)
    if routine not in progs[fname]:
        raise core.Infra("routine %s not found in the listing of %s" % (routine, fname))
    prog = progs[fname][routine]
    rodata = asmx.globl_sizes([os.path.join(core.REPO, "sm4", f) for f in
                               (RODATA_FILES if arch == "amd64" else ["asm_arm64.s", "gcm_arm64.s"])])
    src = core.stage_specs(chk.rd)
    d = os.path.join(chk.rd, "asm_%s_%d" % (routine, random.randrange(1 << 30)))
    os.makedirs(d)
    for fn in ("AsmMachine.tla",):
        shutil.copy(os.path.join(src, fn), d)
    with open(os.path.join(d, "AsmInput.tla"), "w") as f:
        f.write("------------------------------ MODULE AsmInput ------------------------------\n")
        f.write("(* GENERATED from `go tool asm -S` of %s (routine %s) in %s: do not edit. *)\n" % (fname, routine, core.REPO))
        f.write("EXTENDS Integers, TLC\n")
        f.write("Prog ==\n%s\n" % asmx.tla_prog(prog))
        f.write("Contexts == <<\n  %s >>\n" % ",\n  ".join(ctx_tla(c[0], c[1], c[2], c[3], c[4], rodata, c[5] if len(c) > 5 else ()) for c in contexts))
        f.write("MaxSteps == %d\n" % maxsteps)
        f.write("=============================================================================\n")
    with open(os.path.join(d, "AsmMachine.cfg"), "w") as f:
        f.write("SPECIFICATION Spec\nINVARIANT Report\nCHECK_DEADLOCK FALSE\n")
    md = os.path.join(d, "md")
    cmd = core._java_cmd(False, "6g", gcthreads=2) + ["-metadir", md, "-workers", str(workers), "-nowarning",
                                                     "AsmMachine.tla"]
    e = dict(os.environ)
    e.pop("JAVA_TOOL_OPTIONS", None)
    t0 = time.time()
    try:
        p = subprocess.run(cmd, cwd=d, env=e, timeout=timeout, stdout=subprocess.PIPE, stderr=subprocess.STDOUT, text=True)
    except subprocess.TimeoutExpired:
        raise core.Infra("TLC timed out on the abstract machine for %s" % routine)
    out = p.stdout
    if "Model checking completed. No error has been found." not in out:
        raise core.Infra("abstract machine run failed for %s:\n%s" % (routine, core._tail(out)))
    m = core._summary_re.search(out)
    res = []
    for mm in re.finditer(r'<<\s*"ASMRESULT",\s*"([^"]*)",\s*(\d+),\s*(\{.*?\}),\s*(\[.*?\]|<<\s*>>),\s*(\d+)\s*>>', out, re.S):
        errs = re.findall(r'"((?:[^"\\]|\\.)*)"', mm.group(3))
        acc = {}
        for a in re.finditer(r'(\w+) \|-> <<(-?\d+), (-?\d+), (-?\d+), (-?\d+)>>', mm.group(4)):
            acc[a.group(1)] = tuple(int(a.group(i)) for i in range(2, 6))
        res.append(dict(ctx=mm.group(1), steps=int(mm.group(2)), errs=sorted(set(errs)), acc=acc, nsb=int(mm.group(5))))
    done = set(r["ctx"] for r in res)
    if done != set(c[0] for c in contexts):
        raise core.Infra("abstract machine: %d of %d contexts of %s produced a result" % (len(done), len(contexts), routine))
    shutil.rmtree(d, ignore_errors=True)
    return res, dict(generated=int(m.group(1)) if m else 0, distinct=int(m.group(2)) if m else 0,
                     wall=time.time() - t0, instructions=len(prog))
