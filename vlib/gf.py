"""GF(2^128) in the GCM convention, for the (untrusted) input generators only: solving nonces
whose pre-counter block J0 has a chosen value.  Never used as an oracle."""
R = 0xE1 << 120


def mul(x, y):
    z, v = 0, y
    for i in range(128):
        if (x >> (127 - i)) & 1:
            z ^= v
        v = (v >> 1) ^ R if v & 1 else v >> 1
    return z


def power(x, e):
    r = 1 << 127          # the field's one
    while e:
        if e & 1:
            r = mul(r, x)
        x = mul(x, x)
        e >>= 1
    return r


def inv(x):
    return power(x, (1 << 128) - 2)


def ghash_blocks(h, blocks, y=0):
    for b in blocks:
        y = mul(y ^ b, h)
    return y


def solve_nonce(h, nbytes, target_j0, rng):
    """A nonce of nbytes (multiple of 16, not 12) with J0(H, nonce) = target_j0."""
    assert nbytes % 16 == 0 and nbytes >= 16
    m = nbytes // 16
    hinv = inv(h)
    first = [rng.getrandbits(128) for _ in range(m - 1)]
    y_prev = ghash_blocks(h, first)
    lblock = nbytes * 8
    y_m = mul(target_j0, hinv) ^ lblock
    last = mul(y_m, hinv) ^ y_prev
    blocks = first + [last]
    out = []
    for b in blocks:
        out += list(b.to_bytes(16, "big"))
    # self-check
    assert mul(ghash_blocks(h, blocks) ^ lblock, h) == target_j0
    return out
