"""Transplant of the arm64 GCM Go glue (sm4_gcm_arm64.go: cryptoBlocks, fillCounter*, gHashUpdate /
gHashFinish, ensureCapacity, Seal, Open over the NEON kernels) onto the amd64 kernels, so that its
control logic - which cannot be executed in this sandbox on its own architecture - is exercised
by the same trace validation as the fused assembly (C06 'kernel-plus-Go glue' path, C07, C10).

The variant package is built with `go build -overlay`: sm4_gcm_amd64.go is replaced by the CURRENT
tree's sm4_gcm_arm64.go with its build tag changed and the five NEON xorN routines replaced by Go
loops (the block kernels cryptoBlockAsm{,X2,X4,X8,X16} and gHashBlocks have the same signatures on
both architectures); the verif export file loses the four functions that name amd64-only symbols."""
import json, os, re
from . import core

XOR_GO = '''
// ---- added by the verification overlay: Go stand-ins for the NEON xorN routines
func xorN(dst, src1, src2 *byte, n int) {
	d, a, b := unsafe.Slice(dst, n), unsafe.Slice(src1, n), unsafe.Slice(src2, n)
	for i := 0; i < n; i++ {
		d[i] = a[i] ^ b[i]
	}
}
func xor256(dst *byte, src1 *byte, src2 *byte) { xorN(dst, src1, src2, 256) }
func xor128(dst *byte, src1 *byte, src2 *byte) { xorN(dst, src1, src2, 128) }
func xor64(dst *byte, src1 *byte, src2 *byte)  { xorN(dst, src1, src2, 64) }
func xor32(dst *byte, src1 *byte, src2 *byte)  { xorN(dst, src1, src2, 32) }
func xor16(dst *byte, src1 *byte, src2 *byte)  { xorN(dst, src1, src2, 16) }
'''


def build_glue_driver(chk):
    if "_glue_drv" in chk.extra:
        return chk.extra["_glue_drv"]
    chk.drv()                                   # go.mod / go.sum in the run directory
    sm4 = os.path.join(core.REPO, "sm4")
    src = open(os.path.join(sm4, "sm4_gcm_arm64.go")).read()
    if "//go:build arm64" not in src:
        raise core.Infra("sm4_gcm_arm64.go has no arm64 build constraint line to rewrite")
    src = src.replace("//go:build arm64", "//go:build amd64", 1)
    src, n = re.subn(r"//go:noescape\s*\nfunc xor(?:256|128|64|32|16)\(dst \*byte, src1 \*byte, src2 \*byte\)\s*\n", "", src)
    if n != 5:
        raise core.Infra("expected the five xorN declarations in sm4_gcm_arm64.go, found %d" % n)
    if "import (" not in src:
        raise core.Infra("unexpected import form in sm4_gcm_arm64.go")
    src = src.replace("import (", 'import (\n\t"unsafe"', 1) + XOR_GO
    exp = open(os.path.join(sm4, "verif_export_amd64.go")).read()
    for fn in ("VerifEnsureCapacity", "VerifNeedExpand", "VerifSealAsm", "VerifOpenAsm"):
        exp, k = re.subn(r"\nfunc %s\([^\n]*\{\n(?:[^\n]*\n)*?\}\n" % fn, "\n", exp)
        exp, k2 = re.subn(r"\nfunc %s\([^\n]*\{[^\n]*\}\n" % fn, "\n", exp)
        if k + k2 != 1:
            raise core.Infra("could not drop %s from the export file" % fn)
    gdir = os.path.join(chk.rd, "glue")
    os.makedirs(gdir, exist_ok=True)
    g1, g2 = os.path.join(gdir, "glue_gcm.go"), os.path.join(gdir, "glue_export.go")
    open(g1, "w").write(src)
    open(g2, "w").write(exp)
    ov = os.path.join(gdir, "overlay.json")
    json.dump({"Replace": {os.path.join(sm4, "sm4_gcm_amd64.go"): g1, os.path.join(sm4, "verif_export_amd64.go"): g2}},
              open(ov, "w"))
    out = os.path.join(chk.rd, "drv_glue")
    p = core.sh(["go", "build", "-overlay", ov, "-modfile=" + os.path.join(chk.rd, "go.mod"), "-tags", "verif", "-o", out,
                 "./drv"], cwd=os.path.join(core.VERIF, "harness"), env=core.GOENV, check=False, timeout=900)
    if p.returncode != 0:
        raise core.Infra("glue-variant build failed:\n" + p.stdout[-3000:])
    chk.extra["_glue_drv"] = out
    return out
