"""Common check runner: ties generators, the driver, TLC validation, replay confirmation,
known findings and evidence together."""
import json, os, sys, time, random
from . import core
from .core import Infra


class Check:
    def __init__(self, prop, tier):
        self.prop, self.tier = prop, tier
        self.t0 = time.time()
        self.rd = core.rundir(prop)
        self.rng = random.Random(core.seed() * 1000003 + sum(map(ord, prop)))
        self.states = 0
        self.transitions = 0
        self.models = []          # (module, cfg, generated, distinct, wall)
        self.bad = []             # confirmed failures: dict(key, why, replay, sc)
        self.events = 0
        self.scenarios = 0
        self.accepted = 0
        self.classes = {}
        self.samples = []
        self.notes = []
        self.extra = {}
        self._drv = None

    # -- building blocks
    def drv(self):
        if self._drv is None:
            self._drv = core.build_driver(self.rd)
        return self._drv

    def model(self, module, cfg=None, accel=False, workers=None, timeout=1800, extra=(), xmx="12g"):
        r = core.tlc_mc(self.rd, module, cfg=cfg, accel=accel, workers=workers, timeout=timeout,
                        extra=extra, xmx=xmx)
        self.states += r["distinct"]
        self.transitions += r["generated"]
        self.models.append(dict(module=module, cfg=cfg or module + ".cfg", generated=r["generated"],
                                distinct=r["distinct"], wall_s=round(r["wall"], 1)))
        return r

    def inductive(self, module, **kw):
        """Apalache: inductive invariant of a design-level module, for every reachable state.  A refuted
        invariant is a defect of the specification (Infra, like a failing design model); an Apalache
        that is missing or does not finish is recorded in the evidence and decides nothing."""
        r = core.apalache_inductive(self.rd, module, **kw)
        self.models.append(dict(module=module, cfg="apalache IndInit/IndInv", generated=0, distinct=0,
                                apalache=r.get("steps"), result=("proved" if r["ok"] else "not run: " + str(r.get("note", ""))[:200])))
        if r["ok"] is False:
            raise core.Infra("Apalache refutes the inductive invariant of %s: %s" % (module, r["steps"]))
        return r

    def proof(self, module, **kw):
        """TLAPS: a machine-checked proof about a design-level module (all parameter values).  Failed
        obligations are a specification defect (Infra); a missing / unfinished tlapm decides nothing."""
        r = core.tlaps(self.rd, module, **kw)
        self.models.append(dict(module=module, cfg="tlapm", generated=0, distinct=0, tlaps=r,
                                result=("proved, %d obligations" % r["obligations"]) if r["ok"] else "not run: " + str(r.get("note", r))[:200]))
        if r["ok"] is False:
            raise core.Infra("tlapm: %d of %d obligations of %s failed" % (r["failed"], r["obligations"], module))
        return r

    def exec_and_validate(self, module, cmds, keyfn, accel=False, cost=None, shards=None,
                          result_keys=None, timeout=3000, tag="t", env=None, pure_budget=0,
                          families=("bits",), variant=None, fresh=False):
        """Runs the commands on the real code, validates the events with TLC, confirms every
        distinct failure key by re-executing its scenario, and records it."""
        if not cmds:
            return []
        keyfn0 = keyfn

        def keyfn(b):          # a call that did not return has none of the result fields the per-property keys look at
            if "crashed" in b["ev"]:
                return "call_did_not_return.%s" % b["ev"].get("op", "?")
            return keyfn0(b)
        drvpath = self.drv()
        if variant == "glue":          # the arm64 Go glue transplanted onto the amd64 kernels (vlib/glue.py)
            from . import glue as _glue
            drvpath = _glue.build_glue_driver(self)
        if fresh:
            # every scenario in a process of its own: its first command is the FIRST use of the library in that process
            # (lazily built tables, init-order dependences between entry points)
            groups, cur = [], []
            for c in cmds:
                if c.get("op") == "scenario" and cur:
                    groups.append(cur)
                    cur = []
                cur.append(c)
            if cur:
                groups.append(cur)
            events = []
            for gcmds in groups:
                events += core.run_driver(drvpath, gcmds, self.rd, tag=tag, env=env)
        else:
            events = core.run_driver(drvpath, cmds, self.rd, tag=tag, env=env)
        if accel:
            from . import accel as _accel
            _accel.selftest(self, families)
        bad, stats = core.validate(self.rd, module, events, accel=accel, cost=cost, shards=shards,
                                   timeout=timeout)
        if accel and pure_budget > 0:
            # a seeded sample of the scenarios is validated again WITHOUT any Java override
            groups = core.scenario_groups(events)
            self.rng.shuffle(groups)
            cf = cost or (lambda g: sum(len(json.dumps(e)) for e in g))
            pick, used = [], 0
            for g in groups:
                c = cf(g)
                if c > pure_budget // 8:
                    continue                 # very large scenarios are validated with accelerators only
                if used + c <= pure_budget:
                    pick.append(g)
                    used += c
            pev = [e for g in pick for e in g]
            pbad, pstats = core.validate(self.rd, module, pev, accel=False, cost=cost, shards=shards,
                                         timeout=timeout)
            accel_bad_sc = set(b["sc"] for b in bad)
            pure_bad_sc = set(b["sc"] for b in pbad)
            picked_sc = set(g[0]["sc"] for g in pick)
            if pure_bad_sc != (accel_bad_sc & picked_sc):
                raise Infra("pure and accelerated validation disagree on scenarios %s" % sorted(
                    pure_bad_sc ^ (accel_bad_sc & picked_sc))[:5])
            self.extra["validated_without_accelerator"] = self.extra.get("validated_without_accelerator", 0) + pstats["scenarios"]
        self.events += stats["events"]
        self.scenarios += stats["scenarios"]
        self.states += stats["states"]
        self.transitions += stats["events"]
        for ev in events:
            if ev.get("op") == "scenario":
                c = ev.get("cls", "generic")
                self.classes[c] = self.classes.get(c, 0) + 1
        badsc = {}
        for b in bad:
            badsc.setdefault(b["sc"], []).append(b)
        self.accepted += stats["scenarios"] - len(badsc)
        if len(self.samples) < 3:
            for g in core.scenario_groups(events)[:3]:
                self.samples.append(_shorten(g))
        # group by key (every failing event counts, the abstract state always comes from the
        # spec so later events of a scenario stay meaningful); confirm one scenario per key
        cmd_groups = {}
        for c in cmds:
            cmd_groups.setdefault(c["sc"], []).append(c)
        bykey = {}
        for sc, bl in badsc.items():
            seen = set()
            for b in bl:
                k = keyfn(b)
                if k not in seen:
                    seen.add(k)
                    bykey.setdefault(k, []).append(b)
        for k, bl in bykey.items():
            b = bl[0]
            sc_cmds = cmd_groups[b["sc"]]
            ev2 = core.run_driver(drvpath, sc_cmds, self.rd, tag=tag + "_re", env=env)
            bad2, _ = core.validate(self.rd, module, ev2, accel=accel, shards=1, timeout=timeout)
            history = False
            if not any(keyfn(x) == k for x in bad2):
                # not a function of this scenario alone: the library carries state from earlier calls
                # (a package-level buffer, a cache).  Re-execute the history that leads to it, shortest
                # window first; the specification still judges every event on its own.
                idx = max(i for i, c in enumerate(cmds) if c["sc"] == b["sc"])
                starts = [i for i, c in enumerate(cmds[:idx + 1]) if c.get("op") == "scenario"]
                ok = False
                for back in (4, 32, 256, len(starts)):
                    hist = cmds[starts[max(0, len(starts) - back)]:idx + 1]
                    ev2 = core.run_driver(drvpath, hist, self.rd, tag=tag + "_re", env=env)
                    bad2, _ = core.validate(self.rd, module, ev2, accel=accel, shards=1, timeout=timeout)
                    if any(keyfn(x) == k and x["sc"] == b["sc"] for x in bad2):
                        sc_cmds, ok, history = hist, True, True
                        break
                    if back >= len(starts):
                        break
                if not ok:
                    raise Infra("failure %s of scenario %s did not reproduce on replay" % (k, b["sc"]))
            path = core.write_replay(self.prop, k, sc_cmds, extra=dict(module=module, accel=accel, variant=variant,
                                     why=b["why"] + (" (depends on the preceding calls)" if history else ""),
                                     event=_shorten([b["ev"]])[0], count=len(bl), env=env or {}))
            self.bad.append(dict(key=k, why=b["why"], replay=path, count=len(bl)))
        return events

    def first_use(self, module, cmds, keyfn, count=6, **kw):
        """A seeded sample of the scenarios again, EACH IN A FRESH PROCESS: its first command is then the first use of the
        library in that process (lazily built tables or constants, init-order dependences between entry points)."""
        groups, cur = [], []
        for c in cmds:
            if c.get("op") == "scenario" and cur:
                groups.append(cur)
                cur = []
            cur.append(c)
        if cur:
            groups.append(cur)
        small = [g for g in groups if len(json.dumps(g)) < 20000]
        pick = self.rng.sample(small, min(count, len(small)))
        flat = [dict(c) for g in pick for c in g]
        for c in flat:
            if c.get("op") == "scenario":
                c["cls"] = "first_use_" + c.get("cls", "")
        return self.exec_and_validate(module, flat, lambda b: "first_use." + keyfn(b), tag="first", fresh=True, **kw)

    def add_failure(self, key, why, replay_obj):
        path = core.write_replay(self.prop, key, replay_obj.get("commands", []), extra=replay_obj)
        self.bad.append(dict(key=key, why=why, replay=path, count=1))

    # -- verdict
    def finish(self, level, rule, assumptions, extra_cov=None, exhaustive=False):
        known = [k for k in core.load_known() if k["property"] == self.prop]
        open_keys = {k["key"]: k for k in known if k.get("status") == "open"}
        viol = 0
        for b in self.bad:
            if b["key"] in open_keys:
                print("KNOWN-FINDING: property=%s %s (%s; %d scenario(s); replay=%s)" % (
                    self.prop, b["key"], open_keys[b["key"]].get("what", b["why"]), b["count"], b["replay"]))
            else:
                viol += 1
                print("VIOLATION property=%s replay=%s" % (self.prop, b["replay"]))
                print("  key=%s why=%s scenarios=%d" % (b["key"], b["why"], b["count"]))
        cov = dict(states=max(self.states, 1), transitions=max(self.transitions, 1),
                   traces_validated_against_impl=self.accepted,
                   samples=self.samples or [dict(note="no trace events in this check")],
                   evaluations=self.events, distinct_nontrivial=sum(
                       v for k, v in self.classes.items() if k != "generic"),
                   rule=rule, classes=self.classes, models=self.models,
                   scenarios=self.scenarios, failures=[dict(key=b["key"], why=b["why"], count=b["count"])
                                                      for b in self.bad],
                   notes=self.notes)
        if exhaustive:
            cov["exhaustive"] = True
        cov.update({k: v for k, v in self.extra.items() if not k.startswith("_")})
        if extra_cov:
            cov.update(extra_cov)
        core.write_evidence(self.prop, self.tier, level, cov, assumptions, time.time() - self.t0, viol)
        print("%s %s: %d events in %d scenarios validated by TLC (%d accepted), %d model states, %d failure key(s), %d violation(s), %.1fs" % (
            self.prop, self.tier, self.events, self.scenarios, self.accepted, self.states,
            len(self.bad), viol, time.time() - self.t0))
        return 1 if viol else 0


def _shorten(group):
    out = []
    for ev in group[:6]:
        e = {}
        for k, v in ev.items():
            if isinstance(v, list) and len(v) > 24:
                e[k] = v[:24] + ["...(%d)" % len(v)]
            else:
                e[k] = v
        out.append(e)
    return out


def generic_replay(prop, path):
    """Re-executes a saved failing scenario against the current tree and re-validates it."""
    obj = json.load(open(path))
    extra = obj.get("extra", {})
    rd = core.rundir(prop + "_replay")
    drv = core.build_driver(rd)
    if extra.get("variant") == "glue":
        from . import glue as _glue
        chk = Check(prop, "quick")
        drv = _glue.build_glue_driver(chk)
        rd = chk.rd
    evs = core.run_driver(drv, obj["commands"], rd, tag="replay", env=extra.get("env") or None)
    bad, _ = core.validate(rd, extra["module"], evs, accel=extra.get("accel", False), shards=1)
    if bad:
        print("VIOLATION property=%s replay=%s" % (prop, path))
        print("  why=%s" % bad[0]["why"])
        print("  event=%s" % json.dumps(_shorten([bad[0]["ev"]])[0]))
        return 1
    print("replay %s: scenario accepted by the specification on the current tree" % path)
    return 0
