#!/usr/bin/env python3
"""Regenerates MANIFEST.json from the table below (python3 -m vlib.manifest)."""
import json, os, subprocess

VERIF = os.path.dirname(os.path.dirname(os.path.abspath(__file__)))
ALL = ["C%02d" % i for i in range(1, 21)]

SM2NOTE = 'Trusted: TLC/SANY; SM2.tla/EC.tla (model-checked on a toy curve: group axioms, round trip, rule coverage, VerifyTight); BigNat/EC Java accelerators compared with the pure TLA+ definitions on every run (pure 256-bit re-validation is infeasible: one modular inverse costs ~25 min in pure TLA+). 256-bit inputs are sampled outside the solved classes.'

CLAIMED = {
    "C04": dict(
        technique="TLA+ spec (SM3 definition + HashObj machine), TLC exhaustive small model, TLC trace validation of recorded real executions, model-based histories replayed on the code",
        text="TLC checks exhaustively (block 4, all Write/Sum/Reset histories within bounds) that the buffer machine "
             "refines pad-then-absorb; every recorded Write/Sum/Reset/SumSM3 call of the real sm3 package, on all "
             "message lengths in the tier's range, on every maximal history of the small model scaled to 64-byte blocks "
             "and on seeded random histories, is recomputed by TLC from the logged inputs with the pure TLA+ SM3 "
             "(validated against the GB/T 32905 vectors on every run) and must match, including the projected "
             "internal state after each call.",
        note="Trusted: TLC/SANY, the TLA+ SM3 text (two standard vectors), the verif-tag projection sm3.VerifState. "
             "Lengths are bounded (quick 0..200 + 10 longer, thorough 0..1100).",
        ref="6 C04"),
    "C05": dict(
        technique="TLA+ SM4 definition (algebraic S-box, derived CK) evaluated by TLC on recorded executions of every block path; small exhaustive Feistel-structure model",
        text="TLC recomputes, with the pure TLA+ SM4 (standard example and algebraic-S-box = table identity checked on "
             "every run), every block recorded from the real code: public Encrypt/Decrypt with the accelerated path on and "
             "off, in place and not, after the key slice was overwritten; both key schedules word for word; portable 1/2-block "
             "and vector 1/2/4/8/16-block kernels with distinct blocks per lane and one-hot lanes; key-length rule 0..40. "
             "TLC also checks exhaustively (2-bit words, all round functions) that the reversed key order inverts the network.",
        note="Trusted: TLC/SANY, SM4.tla (standard example). Keys/blocks are sampled. arm64 kernels cannot run here and are not covered.",
        ref="6 C05"),
    "C06": dict(
        technique="TLA+ SP 800-38D GCM over TLA+ SM4 evaluated by TLC on recorded Seal calls of three implementation paths; solved counter-wrap nonces",
        text="SP 800-38D is written once over an abstract block (GCMG.tla); TLC checks exhaustively at toy size (2-symbol blocks, counter "
             "wrapping every 4 blocks, GF(2^4)) that the implementation-shaped model of the fused code (GcmKernels.tla: counter "
             "lanes, kernel ladder 16/8/4/2/1 + staged tail, 4-way aggregated GHASH, hash-then-decrypt Open) equals it for all "
             "text/aad/IV lengths; the 128-bit instance of the same text (GCM.tla) is the oracle: "
             "TLC recomputes ciphertext and tag of every recorded Seal with GCM.tla over SM4.tla (both validated on every run "
             "by published vectors: GCM-spec GF(2^128) case, RFC 8998 SM4-GCM): plaintext lengths covering every combination "
             "of the 256/128/64/32/16-byte kernels with and without a tail (thorough: all 0..1100), aad and nonce lengths "
             "across the 1-way/4-way GHASH thresholds (thorough: all), tag sizes 12..16, nonces solved in GF(2^128) so the "
             "initial counter is 2^32-j, on the fused assembly path, the standard library's generic GCM over the portable "
             "cipher, generic GCM over the accelerated block, and the arm64 kernel-plus-Go-glue code transplanted onto the amd64 kernels "
             "(go build -overlay).",
        note="Trusted: TLC/SANY, GCM.tla + SM4.tla (vectors). Keys/data sampled, lengths bounded (1100/300 + a few around 2^16). "
             "The arm64 glue runs over amd64 kernels (its NEON xorN routines replaced by Go loops); NEON kernels are not executable here.",
        ref="6 C06"),
    "C07": dict(
        technique="TLC trace validation of recorded Open calls against the TLA+ GCM definition (accelerated, with a pure-TLA+ re-validated sample)",
        text="For sealed messages of every kernel-ladder class, tag sizes 12..16 and several nonce sizes, TLC judges every "
             "recorded Open - authentic; every tag bit; ciphertext bits (all for short messages, chunk boundaries for long "
             "ones); aad and nonce bits; aad lengthened/shortened; truncations by 1..tagSize+1; extensions; every length "
             "shorter than the tag - by recomputing the expected tag from the logged inputs: (plaintext, nil error) exactly "
             "for authentic inputs, otherwise error, nil slice, no panic. Java accelerators are used for SM4/GHASH after a "
             "per-run equivalence self-test; a seeded sample of scenarios is re-validated with no accelerator.",
        note="Trusted: TLC/SANY, GCM.tla/SM4.tla (vectors), the accelerator self-test. Forgeries are structured single modifications.",
        ref="6 C07"),
    "C10": dict(
        technique="TLA+ append/alias memory model (AEADBuf) checked exhaustively by TLC; its shapes concretised and replayed; TLC trace validation of results and input snapshots",
        text="TLC checks exhaustively (all (len,cap) <= 4, need <= 3, dst unrelated / in-place) that ensure-capacity-then-write "
             "equals the append contract; every reached shape is concretised for Seal and Open (authentic and forged) over "
             "message-length classes, each call repeated on the same buffers; TLC requires result = dst || output (output "
             "from the GCM definition), nonce/aad/input byte-identical after the call (exact in-place overlap excepted) and "
             "the repeated call to give the same answer; same for sm3 Sum with and without spare capacity.",
        note="Trusted: TLC/SANY, the specs' vectors, the executor's buffer layout code. Array reuse is recorded, not demanded.",
        ref="6 C10"),
    "C01": dict(
        technique="TLA+ SM2/EC definition model-checked exhaustively on a toy curve; TLC trace validation of derive-sign-verify round trips on the real code with solved leading-zero classes",
        text="TLC checks for ALL (d, e, k) of a toy prime-order curve that every signature SignDef produces satisfies VerifyDef; on "
             "the real code every derive/sign/verify round trip (all three entry-point pairs; signatures solved so that r, s or "
             "(r+s) mod n has 1..8 leading zero bytes; boundary and short keys; rejected candidates first) is recorded and TLC "
             "requires public key = [d]G, signature = the standard's value, verifier accepted, no panic.",
        note=SM2NOTE, ref="6 C01"),
    "C02": dict(
        technique="TLA+ SM2 signing definition + SignFlow machine; nonce/digest pairs solved per rejection rule; TLC trace validation incl. bytes consumed",
        text="Streams whose first candidates are solved to hit each rejection rule (k >= n, k = 0, r = 0, r + k = n, s = 0) alone and "
             "in every order before a valid nonce, digests solved for leading-zero r/s, all key classes; TLC recomputes (r, s, "
             "error, bytes consumed from the reader) with module SM2 on the SM2 curve and the SignFlow/Reader machines. The toy "
             "model shows each rule fires and that the coded formula (k+r)/(1+d)-r equals the standard's.",
        note=SM2NOTE, ref="6 C02"),
    "C03": dict(
        technique="TLA+ VerifyDef as oracle; forged triples solved to satisfy the equation while violating one side condition; TLC trace validation",
        text="Valid triples, every single-bit flip of each argument (quick: seeded sample), wrong lengths, and triples solved in the "
             "group so that the verification equation holds while exactly one side condition fails (r=0, s=0, r>=n, s>=n, r+s=n, "
             "R=O), non-canonical / off-curve / degenerate public keys; TLC decides every verdict with VerifyDef. The toy model "
             "shows VerifyDef accepts only what some nonce produces.",
        note=SM2NOTE, ref="6 C03"),
    "C08": dict(
        technique="TLA+ leakage model: non-interference by self-composition over all toy secrets (TLC); leakage traces of the real binary (valgrind-lackey PC + address traces) compared pairwise by TLC and against the schedule the comb/chain models prescribe",
        text="TLC checks, for all pairs of toy secrets, that the observation sequences of masked selection, borrow-chain comparison, "
             "fixed-window multiplication and fixed addition chain coincide, and that the README's three ruled-out designs do not "
             "(non-vacuity). For each listed primitive the real binary is run under valgrind-lackey on several secrets with the "
             "same public input; the scoped, normalised instruction + load/store address traces must be identical (identical up "
             "to the final verdict for the two verdict functions), as compared by TLC segment by segment; executed call counts "
             "must match the comb schedule and the extracted addition-chain operation counts.",
        note="Trusted: TLC/SANY, valgrind-lackey, the segmenter/hasher (harness/drv/leakfilter.go), the symbol scoping. Secrets are sampled "
             "classes, not all 2^256; micro-architectural timing is out of scope; *_Unsafe functions and big.Int glue are out of "
             "scope by the property's wording.",
        ref="6 C08"),
    "C09": dict(
        technique="TLA+ abstract machine (AsmMachine.tla) executing the assembler's own listing of the current tree with a pub/ptr/sec value domain; TLC explores every length vector and both outcomes of the verdict branch",
        text="The macro-expanded listing (`go tool asm -S`) of every amd64 routine with a Go declaration is converted at check time into "
             "instruction records; TLC runs the abstract machine on each length vector (text, aad, nonce, tag swept separately and "
             "mixed; thorough: every length 0..1100 / 1..300). Key, data, nonce, aad and scratch bytes are one abstract value, so "
             "each explored path covers ALL data values; a branch whose flags derive from data, or an access whose base derives "
             "from data, is a violation; openAsm must take exactly one data-dependent branch (the verdict). Conformance: the real amd64 "
             "routines are single-stepped under ptrace for two random data sets per length vector and the machine must follow "
             "each recorded instruction sequence exactly; every arm64 TEXT symbol is run through the same machine (static).",
        note="Trusted: TLC/SANY, the opcode classification (vlib/asmx.py, fails closed on unknown opcodes/operands), the value semantics in "
             "AsmMachine.tla, the Go assembler, ptrace single-stepping (drv asmtrace). arm64: all TEXT symbols run in the machine (static only; "
             "on arm64 the GCM control flow is Go code and is not covered here).",
        ref="6 C09"),
    "C11": dict(
        technique="TLA+ abstract machine bounds check of every access of the extracted listing (symbolic placement) + TLC trace validation of guard-page executions (PROT_NONE before/after every buffer)",
        text="Static: pointers are (region, offset) in the abstract machine, so every load/store of every routine for every length "
             "vector is checked against the region size (round keys 128, scratch 32, RODATA by GLOBL size, masked accesses by "
             "their public mask) independent of placement. Dynamic: public AEAD/Block methods and exported kernels run with each "
             "buffer ending at / beginning after an inaccessible page over text, aad and nonce lengths and tag sizes; TLC "
             "validates the values and any fault is an out-of-range access; short-buffer Encrypt/Decrypt must panic without "
             "touching bytes beyond the slice.",
        note="Trusted: as C09, plus mmap/mprotect placement in the executor and debug.SetPanicOnFault. arm64: static half only.",
        ref="6 C11"),
    "C12": dict(
        technique="TLA+ SignFlow/Reader machines (model-checked in MC_Reader) + EC definition; TLC trace validation of key generation, key test, derivation, curve test",
        text="GenerateKey on streams with candidates 0, n-1, n, n+1, 2^256-1 in every order before a valid one (key, [d]G and bytes "
             "consumed recomputed by TLC), TestPrivateKey/DerivePublic/CheckOnCurve on boundary values, other lengths, one-bit "
             "neighbours, non-canonical x+p coordinates.",
        note=SM2NOTE, ref="6 C12"),
    "C13": dict(
        technique="TLA+ SM3 + SM2 definitions as independent oracle for ZA and e; TLC trace validation of id/za-level entry points",
        text="ZA for id lengths 0..N, around 8000 and across the ENTL limit; id- and za-level sign+verify for message lengths over "
             "every residue mod 64; TLC recomputes ZA and e = SM3(ZA||M) with the TLA+ SM3 (independent of the repository's) and "
             "the signature with module SM2.",
        note=SM2NOTE + " OpenSSL cross-signatures not used.", ref="6 C13"),
    "C14": dict(
        technique="TLA+ comb/window schedule model (production parameters + toy end-to-end) checked by TLC; TLC trace validation of all four schemes, variable-point and double-scalar multiplication against the affine double-and-add",
        text="TLC checks at production parameters that each of the four comb schemes (and the 4-bit window) uses every scalar bit "
             "exactly once with weight 2^bit, and on a toy curve that comb and window algorithms equal double-and-add for all "
             "8-bit scalars and all points; on the real code every scheme and the public entry point, ScalarMult and "
             "ScalarMixedMult_Unsafe are run on 0, 1, n-1, n, n+1, 2^256-1, every window/nibble value at (sampled in quick, all "
             "in thorough) positions with other bits 0 and 1, special points (G, -G, 2G, small multiples, O), scalar lengths "
             "0..40, and TLC recomputes each result with module EC.",
        note=SM2NOTE, ref="6 C14"),
    "C15": dict(
        technique="Add/Double bodies extracted from the current tree (go/ast) and executed by TLC on toy curves for all pairs x all representatives x aliasing; TLC trace validation at 256 bits incl. decoding strictness",
        text="The straight-line programs of SM2Point.Add/Double are extracted from /repo at check time and TLC executes them on toy "
             "prime-order curves for ALL pairs of points (incl. O) in ALL projective representatives under every receiver-aliasing "
             "pattern against the affine group law and the projective curve equation (a changed formula line fails here without "
             "running Go); at 256 bits relation classes x aliasing x random Z, negate/select, safe vs fast encodings, and "
             "decoding of every prefix/length/non-canonical/off-curve class with receiver-unchanged-on-error are validated by TLC.",
        note=SM2NOTE + " The go/ast extractor fails closed on statements outside its grammar.", ref="6 C15"),
    "C16": dict(
        technique="addition chains extracted from the current tree and walked by TLC at production size (exponent = p-2 / n-2); TLC trace validation of every field operation on carry-critical operands against BigNat",
        text="TLC interprets the two extracted addition chains with exponents as BigNat values: final exponent exactly p-2 / n-2, no "
             "temporary read before written, operation counts = header comment. Every field/scalar-field operation of the real "
             "code on residues with carry-critical limbs and random ones (with receiver aliasing), canonical decoding around the "
             "modulus and MultiSelect are recomputed by TLC with integer arithmetic.",
        note=SM2NOTE, ref="6 C16"),
    "C17": dict(
        technique="TLA+ interleaving model over read/write footprints computed by the abstract machine on the current listing; concurrent executions of the real code judged call-by-call by TLC with the sequential specifications",
        text="TLC explores every interleaving of 2 (quick) / 3 (thorough) goroutines x 2 calls whose micro-step footprints (which of "
             "cipher object, shared inputs, package state, private destination, private scratch are read/written) are derived at "
             "check time from AsmMachine's access summaries of sealAsm/openAsm/cryptoBlockAsm: no conflicting concurrent access, "
             "every read of a shared location sees its initial value, shared locations untouched. On the real code 16 goroutines "
             "repeat a mixed batch (Seal, Open authentic and forged, Encrypt, Decrypt, SignHashed, VerifyHashed, DerivePublic, SM3) "
             "on one Block, one AEAD, one key set and shared buffers; TLC judges every result with the sequential specs; buffer "
             "pool and package state must be byte-identical afterwards; thorough adds a -race build.",
        note="Trusted: as C09/C06/C01 plus the executor's pool hashing. A schedule-dependent fault that changes no result or buffer is not "
             "visible dynamically; the race detector does not see assembly (hence the footprint model).",
        ref="6 C17"),
    "C18": dict(
        technique="complete enumeration: every table entry and assembly DATA block recomputed by TLC from its derivation (EC scalar multiples, algebraic S-box, SDM semantics of the GFNI affine instructions)",
        text="Finite and enumerated completely in both tiers: TLC recomputes every entry of the four SM2 comb tables and three "
             "remainder tables (both coordinates, Montgomery form) as the stated multiple of G, all S-box / T-table / CK / FK / "
             "Tj / IV entries from the standards' formulas, the curve parameter block, and the DATA blocks parsed from the "
             "amd64 and arm64 .s files of the current tree (GFNI matrices checked against the algebraic S-box for all 256 "
             "inputs with the Intel SDM definition of GF2P8AFFINEQB/INVQB; FK/CK/S-box copies; GHASH polynomial; shuffles; "
             "nibble-reversal table; counter increments).",
        note=SM2NOTE + " GHASH lane-permutation index constants without a published derivation are covered functionally by C06.",
        ref="6 C18"),
    "C19": dict(
        category="model_checking",
        technique="TLA+ Reader x SignFlow model checked exhaustively by TLC (all scripts of <= 3 Read results); its script shapes and every fault offset replayed on the real code and validated by TLC",
        text="TLC enumerates all scripts of at most 3 Read results (chunk 0/short/unit/over-unit, error none/EOF/fault) on the toy "
             "instance and checks the loops against the unit-stream definition; every script shape is concretised to 32-byte "
             "units with 0..2 rejected candidates first, plus the first failure at every byte offset 0..96 (both error "
             "styles), ragged short reads and the nil reader, for GenerateKey and SignHashed (and wrappers); TLC recomputes "
             "(error?, no public key/signature, bytes consumed).",
        note=SM2NOTE + " An error delivered together with the bytes that complete a unit is not a failed draw (io.ReadFull).", ref="6 C19"),
    "C20": dict(
        technique="TLA+ definitions (Util) + algorithm-as-coded model (CmpNaf) checked exhaustively by TLC at small size; TLC trace validation of recorded calls",
        text="TLC checks exhaustively that the borrow-chain comparison and the signed-window recoding loop as coded "
             "(getBit/getBits/carry/index arithmetic, 8-bit bytes) meet the definitions for all pairs of 3-symbol strings "
             "and all 16-bit inputs x w=1..7; every recorded call of the real ConstantTimeCmp / DecomposeNAF on "
             "structured and random 256-bit inputs is judged by TLC against the same definitions (result = lexicographic "
             "order; digits zero-or-odd, |d|<2^w, w zeros after a non-zero digit, weighted sum = input by exact carry "
             "reconstruction).",
        note="Trusted: TLC/SANY, Util.tla. 256-bit inputs are sampled (structured classes + seeded random), exhaustive at 16 bits only.",
        ref="6 C20"),
}

NOT_YET = "check not built yet in this round (see DESIGN.md section 12 build order)"


def main():
    try:
        commits = subprocess.run(["git", "-C", "/repo", "log", "--format=%h %s"], capture_output=True,
                                 text=True).stdout.splitlines()
    except Exception:
        commits = []
    hooks = [c.split()[0] for c in commits if c.split(" ", 1)[1].startswith("verif:")]
    m = dict(
        version=1,
        setup_cmd="bin/setup.sh",
        hooks=dict(guard="verif (Go build tag)",
                   enable="go build -tags verif (harness/drv is rebuilt against /repo's working tree by every check)",
                   baseline_off_cmd="cd /repo && go test -vet=off -count=1 -timeout 25m ./...",
                   source_commits=hooks, add_only=True),
        engines=[
            dict(name="tlc", path="tla/", serves_properties=sorted(CLAIMED),
                 kind_free_text="TLA+ specification checked by TLC: exhaustive small-constant models (MC_*) and trace "
                                "validation of recorded executions (T_*)"),
            dict(name="harness", path="harness/drv", serves_properties=sorted(CLAIMED),
                 kind_free_text="Go executor that runs generated scenarios on the real code and records ndjson events"),
        ],
        checks=[],
        notes="All checks: bin/check <id> --tier quick|thorough; exit 0/1/2 (2 = infrastructure, never a violation). "
              "known_findings.jsonl lists open findings and fixed defects.",
        not_applicable=[dict(property_id=p, reason=NOT_YET) for p in ALL if p not in CLAIMED],
    )
    for p in sorted(CLAIMED):
        c = CLAIMED[p]
        m["checks"].append(dict(
            property_id=p,
            quick_cmd="bin/check %s --tier quick" % p,
            thorough_cmd="bin/check %s --tier thorough" % p,
            evidence_file="evidence/%s.json" % p,
            replay_cmd_template="bin/check %s --replay {path}" % p,
            engine="tlc",
            level_claimed=dict(category=c.get("category", "model_checking"), text=c["text"],
                               design_ref="DESIGN.md section " + c["ref"]),
            level_note=c["note"],
            technique=c["technique"]))
    with open(os.path.join(VERIF, "MANIFEST.json"), "w") as f:
        json.dump(m, f, indent=1)
    print("MANIFEST.json: %d checks, %d not_applicable" % (len(m["checks"]), len(m["not_applicable"])))


if __name__ == "__main__":
    main()
