#!/usr/bin/env python3
"""Regenerates MANIFEST.json from the table below (python3 -m vlib.manifest)."""
import json, os, subprocess

VERIF = os.path.dirname(os.path.dirname(os.path.abspath(__file__)))
ALL = ["C%02d" % i for i in range(1, 21)]

CLAIMED = {
    "C04": dict(
        technique="TLA+ spec (SM3 definition + HashObj machine), TLC exhaustive small model, TLC trace validation of recorded real executions, model-based histories replayed on the code",
        text="TLC checks exhaustively (block 4, all Write/Sum/Reset histories within bounds) that the buffer machine "
             "refines pad-then-absorb; every recorded Write/Sum/Reset/SumSM3 call of the real sm3 package, on all "
             "message lengths in the tier's range, on every maximal history of the small model scaled to 64-byte blocks "
             "and on seeded random histories, is recomputed by TLC from the logged inputs with the pure TLA+ SM3 "
             "(validated against the GB/T 32905 vectors on every run) and must match, including the projected "
             "internal state after each call.",
        note="Trusted: TLC/SANY, the TLA+ SM3 text (two standard vectors), the verif-tag projection sm3.VerifState. "
             "Lengths are bounded (quick 0..200 + 10 longer, thorough 0..1100).",
        ref="6 C04"),
    "C05": dict(
        technique="TLA+ SM4 definition (algebraic S-box, derived CK) evaluated by TLC on recorded executions of every block path; small exhaustive Feistel-structure model",
        text="TLC recomputes, with the pure TLA+ SM4 (standard example and algebraic-S-box = table identity checked on "
             "every run), every block recorded from the real code: public Encrypt/Decrypt with the accelerated path on and "
             "off, in place and not, after the key slice was overwritten; both key schedules word for word; portable 1/2-block "
             "and vector 1/2/4/8/16-block kernels with distinct blocks per lane and one-hot lanes; key-length rule 0..40. "
             "TLC also checks exhaustively (2-bit words, all round functions) that the reversed key order inverts the network.",
        note="Trusted: TLC/SANY, SM4.tla (standard example). Keys/blocks are sampled. arm64 kernels cannot run here and are not covered.",
        ref="6 C05"),
    "C20": dict(
        technique="TLA+ definitions (Util) + algorithm-as-coded model (CmpNaf) checked exhaustively by TLC at small size; TLC trace validation of recorded calls",
        text="TLC checks exhaustively that the borrow-chain comparison and the signed-window recoding loop as coded "
             "(getBit/getBits/carry/index arithmetic, 8-bit bytes) meet the definitions for all pairs of 3-symbol strings "
             "and all 16-bit inputs x w=1..7; every recorded call of the real ConstantTimeCmp / DecomposeNAF on "
             "structured and random 256-bit inputs is judged by TLC against the same definitions (result = lexicographic "
             "order; digits zero-or-odd, |d|<2^w, w zeros after a non-zero digit, weighted sum = input by exact carry "
             "reconstruction).",
        note="Trusted: TLC/SANY, Util.tla. 256-bit inputs are sampled (structured classes + seeded random), exhaustive at 16 bits only.",
        ref="6 C20"),
}

NOT_YET = "check not built yet in this round (see DESIGN.md section 12 build order)"


def main():
    try:
        commits = subprocess.run(["git", "-C", "/repo", "log", "--format=%h %s"], capture_output=True,
                                 text=True).stdout.splitlines()
    except Exception:
        commits = []
    hooks = [c.split()[0] for c in commits if c.split(" ", 1)[1].startswith("verif:")]
    m = dict(
        version=1,
        setup_cmd="bin/setup.sh",
        hooks=dict(guard="verif (Go build tag)",
                   enable="go build -tags verif (harness/drv is rebuilt against /repo's working tree by every check)",
                   baseline_off_cmd="cd /repo && go test -vet=off -count=1 -timeout 25m ./...",
                   source_commits=hooks, add_only=True),
        engines=[
            dict(name="tlc", path="tla/", serves_properties=sorted(CLAIMED),
                 kind_free_text="TLA+ specification checked by TLC: exhaustive small-constant models (MC_*) and trace "
                                "validation of recorded executions (T_*)"),
            dict(name="harness", path="harness/drv", serves_properties=sorted(CLAIMED),
                 kind_free_text="Go executor that runs generated scenarios on the real code and records ndjson events"),
        ],
        checks=[],
        notes="All checks: bin/check <id> --tier quick|thorough; exit 0/1/2 (2 = infrastructure, never a violation). "
              "known_findings.jsonl lists open findings and fixed defects.",
        not_applicable=[dict(property_id=p, reason=NOT_YET) for p in ALL if p not in CLAIMED],
    )
    for p in sorted(CLAIMED):
        c = CLAIMED[p]
        m["checks"].append(dict(
            property_id=p,
            quick_cmd="bin/check %s --tier quick" % p,
            thorough_cmd="bin/check %s --tier thorough" % p,
            evidence_file="evidence/%s.json" % p,
            replay_cmd_template="bin/check %s --replay {path}" % p,
            engine="tlc",
            level_claimed=dict(category=c.get("category", "model_checking"), text=c["text"],
                               design_ref="DESIGN.md section " + c["ref"]),
            level_note=c["note"],
            technique=c["technique"]))
    with open(os.path.join(VERIF, "MANIFEST.json"), "w") as f:
        json.dump(m, f, indent=1)
    print("MANIFEST.json: %d checks, %d not_applicable" % (len(m["checks"]), len(m["not_applicable"])))


if __name__ == "__main__":
    main()
