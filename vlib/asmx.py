"""Binding B3 for the assembly: the assembler's own macro-expanded listing (`go tool asm -S`) of
every .s file of the current tree is parsed into instruction records for the TLA+ abstract
machine (tla/AsmMachine.tla).  Classification only says which operands are read / written and
how wide a memory access is; what the values mean is decided in TLA+.  Anything unknown makes
the extractor raise Infra (exit 2): fail closed."""
import os, re, subprocess
from . import core

LINE = re.compile(r"^\t0x([0-9a-f]+) (\d+) \(([^):]+):(\d+)\)\t(\S+)(?:\t(.*))?$")
TEXT = re.compile(r"^(\S+) STEXT .* size=(\d+) args=(0x[0-9a-f]+)")

BYTE_REGS = {"AL": "AX", "BL": "BX", "CL": "CX", "DL": "DX", "SIB": "SI", "DIB": "DI"}
GPR = {"AX", "BX", "CX", "DX", "SI", "DI", "BP", "SP", "R8", "R9", "R10", "R11", "R12", "R13", "R14", "R15"}

MOVS = {"MOVQ": 8, "MOVL": 4, "MOVW": 2, "MOVB": 1}
ALU = {"ADDQ": ("add", 8), "SUBQ": ("sub", 8), "ANDQ": ("and", 8), "ORQ": ("or", 8), "XORQ": ("xor", 8),
       "SHLQ": ("shl", 8), "SHRQ": ("shr", 8), "ORB": ("or", 1), "XORB": ("xor", 1)}
for _sfx, _w in (("L", 4), ("W", 2), ("B", 1)):
    for _op, _fn in (("ADD", "add"), ("SUB", "sub"), ("AND", "and"), ("OR", "or"), ("XOR", "xor"), ("SHL", "shl"), ("SHR", "shr")):
        ALU.setdefault(_op + _sfx, (_fn, _w))
# two-operand data-flow instructions whose value the machine does not compute (result: unknown, or secret when an
# operand is): rotates, arithmetic shift, multiply, bit counts/scans
for _op in ("ROL", "ROR", "SAR", "IMUL", "POPCNT", "LZCNT", "TZCNT", "BSF", "BSR", "ANDN"):
    for _sfx, _w in (("Q", 8), ("L", 4)):
        ALU.setdefault(_op + _sfx, ("other", _w))
ALU1 = {}      # one-operand read-modify-write
for _op in ("NEG", "NOT", "BSWAP"):
    for _sfx, _w in (("Q", 8), ("L", 4)):
        ALU1[_op + _sfx] = ("other", _w)
CC = ("EQ", "NE", "LT", "LE", "GT", "GE", "CS", "CC", "HI", "LS", "MI", "PL", "OS", "OC")
CMOV = {"CMOV%s%s" % (sfx, cc): w for sfx, w in (("Q", 8), ("L", 4), ("W", 2)) for cc in CC}
SETCC = {"SET" + cc for cc in CC}
JCC = {"JLT": "lt", "JEQ": "eq", "JGT": "gt", "JLE": "le", "JNE": "ne", "JGE": "ge", "JZ": "eq", "JNZ": "ne",
       "JCS": "lt", "JCC": "ge", "JHI": "gt", "JLS": "le", "JLO": "lt", "JHS": "ge"}
# vector opcodes whose memory source is narrower than the destination register
BCAST = {"VPBROADCASTD": 4, "VBROADCASTI32X2": 8, "VBROADCASTI32X4": 16, "VPBROADCASTQ": 8, "VPBROADCASTB": 1,
         "VPBROADCASTW": 2, "VBROADCASTI128": 16, "VINSERTI128": 16, "VEXTRACTI128": 16, "VINSERTI32X4": 16,
         "VEXTRACTI32X4": 16, "VINSERTI64X4": 32, "VEXTRACTI64X4": 32, "PINSRQ": 8, "PINSRD": 4, "PINSRB": 1,
         "PEXTRQ": 8, "PEXTRD": 4, "PEXTRB": 1, "PEXTRW": 2, "PINSRW": 2,
         "VPEXTRQ": 8, "VPEXTRD": 4, "VPEXTRB": 1, "VPEXTRW": 2, "VPINSRQ": 8, "VPINSRD": 4, "VPINSRB": 1, "VPINSRW": 2,
         "VMOVD": 4, "VMOVQ": 8, "MOVD": 4}
# vector / mask opcodes that write the flags (their register-only forms are NOT pure data flow)
FLAG_SETTERS = ("PTEST", "VPTEST", "VTESTP", "COMIS", "UCOMIS", "VCOMIS", "VUCOMIS", "KTEST", "KORTEST", "PCMPESTR", "PCMPISTR",
                "VPCMPESTR", "VPCMPISTR")
NOT_VECTOR = ("POP", "PUSH", "PAUSE", "PREFETCH")
KMOV = {"KMOVB": 1, "KMOVW": 2, "KMOVD": 4, "KMOVQ": 8}
# further SSE / AVX / AVX-512 data-processing opcodes a maintainer may plausibly use: pure data flow (no flags,
# no data-dependent addressing), memory operand = full vector width unless listed in BCAST
VEC_MORE = {"VMOVDQU", "VMOVDQA", "VMOVDQA32", "VMOVDQU16", "VMOVUPS", "VMOVUPD", "VMOVAPS", "MOVOU", "MOVOA",
            "MOVUPS", "MOVAPS", "MOVUPD", "MOVAPD", "PXOR", "VPXOR", "POR", "VPOR", "PAND", "VPAND", "PANDN", "VPANDN",
            "VPANDQ", "VPANDND", "VPANDNQ", "VPORQ", "PSHUFB", "PSHUFD", "VPSHUFD", "PADDL", "PADDQ", "PADDB", "PADDW",
            "PSUBL", "PSUBQ", "VPADDQ", "VPADDB", "VPADDW", "VPSUBD", "VPSUBQ", "PCLMULQDQ", "VPTERNLOGD", "VPTERNLOGQ",
            "VPRORD", "VPROLQ", "VPRORQ", "VPBLENDD", "VPBLENDW", "PBLENDW", "VPALIGNR", "PALIGNR", "VPERMD",
            "VPERM2I128", "VSHUFI32X4", "VSHUFI64X2", "PSLLL", "PSRLL", "PSLLQ", "PSRLQ", "PSRLO", "VPSLLD", "VPSRLD",
            "VPSRLQ", "VPSLLW", "VPSRAD", "PUNPCKLLQ", "PUNPCKHLQ", "PUNPCKLQDQ", "PUNPCKHQDQ", "PUNPCKLBW", "PUNPCKHBW",
            "VPUNPCKLBW", "VPUNPCKHBW", "VPUNPCKLWD", "VPUNPCKHWD"} | set(BCAST)
VEC_OK = {"VPXORD", "VPROLD", "VPBROADCASTD", "VGF2P8AFFINEQB", "VGF2P8AFFINEINVQB", "VPCLMULQDQ", "VMOVDQU32",
          "VPSHUFB", "VPSRLDQ", "VPSLLDQ", "VPANDD", "VPUNPCKLDQ", "VPUNPCKHDQ", "VPADDD", "VPSRLW", "VPUNPCKLQDQ",
          "VPUNPCKHQDQ", "VPERMQ", "VMOVDQA64", "VBROADCASTI32X2", "VALIGND", "VBROADCASTI32X4", "VMOVAPD",
          "VPSLLQ", "PSLLO", "VMOVDQU8", "VMOVDQU64", "VPXORQ", "VPORD"}
ELEM = {"VMOVDQU32": 4, "VMOVDQU8": 1, "VMOVDQU64": 8, "VMOVDQA64": 8}

NONE = dict(k="n", r="", v=0)


def operand(txt):
    t = txt.strip()
    m = re.match(r"^\$(-?(?:0x[0-9a-fA-F]+|\d+))$", t)
    if m:
        return dict(k="i", r="", v=int(m.group(1), 0))
    m = re.match(r"^\$?(\w+)<>(?:\+(\d+))?\(SB\)$", t)
    if m:
        return dict(k="sb", r=m.group(1), v=int(m.group(2) or 0))
    m = re.match(r"^(\w+)\+(\d+)\(FP\)$", t)
    if m:
        return dict(k="fp", r=m.group(1), v=int(m.group(2)) - 8)
    m = re.match(r"^(-?\d+)?\((\w+)\)$", t)
    if m:
        if m.group(2) not in GPR:
            raise core.Infra("asm: memory base %s is not a general register" % m.group(2))
        return dict(k="m", r=m.group(2), v=int(m.group(1) or 0))
    m = re.match(r"^(-?\d+)?\((\w+)\)\((\w+)\*([1248])\)$", t)      # disp(BASE)(INDEX*SCALE)
    if m:
        if m.group(2) not in GPR or m.group(3) not in GPR:
            raise core.Infra("asm: memory base/index %s/%s is not a general register" % (m.group(2), m.group(3)))
        return dict(k="m", r=m.group(2), v=int(m.group(1) or 0), x=m.group(3), sc=int(m.group(4)))
    m = re.match(r"^([XYZ])(\d+)$", t)
    if m:
        return dict(k="v", r="V" + m.group(2), v={"X": 16, "Y": 32, "Z": 64}[m.group(1)])
    if re.match(r"^K[0-7]$", t):
        return dict(k="kr", r=t, v=0)
    if t in GPR:
        return dict(k="r", r=t, v=0)
    if t in BYTE_REGS:
        return dict(k="rb", r=BYTE_REGS[t], v=0)
    m = re.match(r"^(R\d+)B$", t)
    if m:
        return dict(k="rb", r=m.group(1), v=0)
    raise core.Infra("asm: unsupported operand form %r" % txt)


def split_ops(s):
    return [x for x in (s or "").split(", ") if x != ""]


def classify(op, ops, where):
    """-> dict(cl, fn, a, b, c, w, t) ; a, c = sources, b = destination (Go operand order: last)"""
    if op.endswith(".Z"):          # zeroing-masking: the unselected destination lanes become zero - same data flow
        op = op[:-2]
    skip = op in JCC or op in ("JMP", "NOP", "FUNCDATA", "TEXT", "PCDATA", "RET")
    o = [] if skip else [operand(x) for x in ops]
    ins = dict(cl="", fn="", a=NONE, b=NONE, c=NONE, w=0, t=0)
    if op in ("NOP", "FUNCDATA", "TEXT", "PCDATA"):
        ins["cl"] = "nop"
    elif op == "RET":
        ins["cl"] = "ret"
    elif op == "JMP":
        ins.update(cl="jmp", t=int(ops[0]))
    elif op in JCC:
        ins.update(cl="jcc", fn=JCC[op], t=int(ops[0]))
    elif op in ("CMPQ", "CMPL", "CMPW", "CMPB"):
        ins.update(cl="cmp", a=o[0], b=o[1], w={"Q": 8, "L": 4, "W": 2, "B": 1}[op[-1]])
    elif op in ("TESTQ", "TESTL", "TESTW", "TESTB"):      # flags from a AND b, nothing written
        ins.update(cl="test", fn="and", a=o[0], b=o[1], w={"Q": 8, "L": 4, "W": 2, "B": 1}[op[-1]])
    elif op in ("INCQ", "DECQ", "INCL", "DECL"):
        ins.update(cl="alu", fn="add" if op.startswith("INC") else "sub", a=dict(k="i", r="", v=1), b=o[0],
                   w=8 if op.endswith("Q") else 4)
    elif op in ("MOVBQZX", "MOVWQZX", "MOVLQZX", "MOVBLZX", "MOVWLZX"):
        ins.update(cl="mov", a=o[0], b=o[1], w=8)      # zero-extending load: the whole destination register is written
    elif op == "LEAQ":
        ins.update(cl="lea", a=o[0], b=o[1], w=8)
    elif op in MOVS and any(x["k"] == "v" for x in o):
        ins.update(cl="vec", fn=op, a=o[0], b=o[1], w=MOVS[op])
    elif op in MOVS:
        ins.update(cl="mov", a=o[0], b=o[1], w=MOVS[op])
    elif op in ALU and len(o) == 2:
        ins.update(cl="alu", fn=ALU[op][0], a=o[0], b=o[1], w=ALU[op][1])
    elif op in ALU1 and len(o) == 1:
        ins.update(cl="alu", fn=ALU1[op][0], a=o[0], b=o[0], w=ALU1[op][1])
    elif op in CMOV and len(o) == 2:          # destination = itself or the source, chosen by the flags
        ins.update(cl="cmov", a=o[0], b=o[1], w=CMOV[op])
    elif op in SETCC and len(o) == 1:         # a byte of the flags
        ins.update(cl="cmov", a=NONE, b=o[0], w=1)
    elif op in KMOV:
        ins.update(cl="mov", a=o[0], b=o[1], w=KMOV[op])
    elif op in ("VZEROUPPER", "VZEROALL"):
        ins["cl"] = "nop"
    elif op.startswith("PREFETCH") and len(o) == 1 and o[0]["k"] == "m":
        ins.update(cl="prefetch", a=o[0], w=1)      # touches the cache line of its address, never faults
    elif (op in VEC_OK or op in VEC_MORE
          or (op[0] in "VPK" and len(o) >= 2 and not op.startswith(FLAG_SETTERS) and not op.startswith(NOT_VECTOR)
              and not op.startswith("J") and all(x["k"] in ("v", "kr", "i", "r", "rb") for x in o))):
        # the last clause: a vector / mask opcode that is in no table, in a REGISTER-ONLY form - pure data flow from
        # the sources to the destination (a memory form would need its footprint, so it stays fail-closed)
        srcs, dst = o[:-1], o[-1]
        mask = [x for x in srcs if x["k"] == "kr"]
        srcs = [x for x in srcs if x["k"] not in ("i", "kr")]
        if len(srcs) > 2:
            raise core.Infra("asm: %s with %d data sources at %s" % (op, len(srcs), where))
        vecw = max([x["v"] for x in srcs + [dst] if x["k"] == "v"] or [0])
        w = BCAST.get(op, vecw)
        if op == "MOVQ":
            w = 8
        ins.update(cl="vec", fn=op, a=srcs[0] if srcs else NONE, c=srcs[1] if len(srcs) > 1 else NONE, b=dst, w=w)
        if mask:
            mem = [x for x in srcs + [dst] if x["k"] == "m"]
            if mem:                      # masked load / store: footprint decided by the (public) mask value
                if op not in ELEM:
                    raise core.Infra("asm: masked memory form of %s at %s" % (op, where))
                ins["cl"] = "vecmask"
                ins["c"] = mask[0]
                ins["t"] = ELEM[op]      # element size
    else:
        raise core.Infra("asm: opcode %s not in the semantics table (%s)" % (op, where))
    return ins


def listing(path, arch="amd64"):
    env = dict(core.GOENV, GOARCH=arch, GOOS="linux")
    goroot = subprocess.run(["go", "env", "GOROOT"], capture_output=True, text=True, env=env).stdout.strip()
    p = subprocess.run(["go", "tool", "asm", "-I", os.path.join(goroot, "pkg", "include"), "-p",
                        "github.com/bilibili/smgo/sm4", "-S", "-o", os.devnull, os.path.basename(path)],
                       cwd=os.path.dirname(path), capture_output=True, text=True, env=env)
    if p.returncode != 0:
        raise core.Infra("go tool asm failed on %s:\n%s" % (path, (p.stdout + p.stderr)[-2000:]))
    return p.stdout + p.stderr


# ---------------------------------------------------------------- arm64

A64_GPR = {"R%d" % i for i in range(31)}
A64_JCC = {"BLT": "lt", "BGT": "gt", "BEQ": "eq", "BNE": "ne", "BGE": "ge", "BLE": "le", "BLO": "lt", "BHI": "gt",
           "BHS": "ge", "BLS": "le"}
A64_VEC = {"VEOR", "VSRI", "VSHL", "VSUB", "VTBL", "VDUP", "VREV32", "VMOV", "VMOVI", "VEXT", "VPMULL", "VPMULL2",
           "VRBIT", "VADD", "VAND", "VORR", "VREV64", "VUSHR", "VZIP1", "VZIP2"}
LANE_BYTES = {"B": 1, "H": 2, "S": 4, "D": 8, "Q": 16}


def a64_operand(t):
    t = t.strip()
    m = re.match(r"^\$(-?(?:0x[0-9a-fA-F]+|\d+))$", t)
    if m:
        return dict(k="i", r="", v=int(m.group(1), 0))
    m = re.match(r"^\$(\w+)<>(?:\+(\d+))?\(SB\)$", t)
    if m:
        return dict(k="sb", r=m.group(1), v=int(m.group(2) or 0))
    m = re.match(r"^(\w+)(?:\+(\d+))?\(FP\)$", t)
    if m:
        return dict(k="fp", r=m.group(1), v=int(m.group(2) or 0))      # no return-address slot on arm64
    m = re.match(r"^(-?\d+)?\((R\d+)\)$", t)
    if m:
        return dict(k="m", r=m.group(2), v=int(m.group(1) or 0))
    m = re.match(r"^\((R\d+)\)\((R\d+)(?:<<([0-4]))?\)$", t)                  # (Rbase)(Rindex<<shift)
    if m:
        return dict(k="m", r=m.group(1), v=0, x=m.group(2), sc=1 << int(m.group(3) or 0))
    m = re.match(r"^V(\d+)\.([BHSDQ])(\d+)$", t)
    if m:
        return dict(k="v", r="V" + m.group(1), v=LANE_BYTES[m.group(2)] * int(m.group(3)))
    m = re.match(r"^V(\d+)\.([BHSD])\[(\d+)\]$", t)
    if m:
        return dict(k="v", r="V" + m.group(1), v=LANE_BYTES[m.group(2)])   # one lane
    if t in A64_GPR:
        return dict(k="r", r=t, v=0)
    raise core.Infra("asm(arm64): unsupported operand form %r" % t)


def a64_split(s):
    """split operands at top-level commas (register lists are bracketed)"""
    out, depth, cur = [], 0, ""
    for ch in s or "":
        if ch == "[":
            depth += 1
        if ch == "]":
            depth -= 1
        if ch == "," and depth == 0:
            out.append(cur.strip())
            cur = ""
        else:
            cur += ch
    if cur.strip():
        out.append(cur.strip())
    return out


def a64_reglist(t):
    t = t.strip()
    if t.startswith("["):
        return [a64_operand(x) for x in t[1:-1].split(",")]
    return [a64_operand(t)]


def rec(cl="", fn="", a=NONE, b=NONE, c=NONE, w=0, t=0):
    return dict(cl=cl, fn=fn, a=a, b=b, c=c, w=w, t=t)


def classify_arm64(op, rest, where):
    """-> list of instruction records (multi-register and post-increment forms expand)"""
    ops = a64_split(rest)
    if op in ("FUNCDATA", "TEXT", "PCDATA", "NOP", "NOOP"):
        return [rec("nop")]
    if op == "RET":
        return [rec("ret")]
    if op in ("JMP", "B"):
        return [rec("jmp", t=int(ops[0]))]
    if op in A64_JCC:
        return [rec("jcc", fn=A64_JCC[op], t=int(ops[0]))]
    if op == "CMP":       # CMP x, Rn sets flags from Rn - x
        return [rec("cmp", a=a64_operand(ops[1]), b=a64_operand(ops[0]), w=8)]
    A64_MOVW = {"MOVD": 8, "MOVW": 4, "MOVWU": 4, "MOVH": 2, "MOVHU": 2, "MOVB": 1, "MOVBU": 1}
    if op in A64_MOVW:
        a, b = a64_operand(ops[0]), a64_operand(ops[1])
        if a["k"] == "sb":
            return [rec("lea", a=a, b=b, w=8)]
        # scalar load / store: the footprint is the operand width; a loaded register is written whole
        return [rec("mov", a=a, b=b, w=A64_MOVW[op] if (a["k"] == "m" or b["k"] == "m") else 8)]
    if op in ("CBZ", "CBNZ"):          # compare with zero and branch: flags from the register, then the branch
        return [rec("cmp", a=a64_operand(ops[0]), b=dict(k="i", r="", v=0), w=8),
                rec("jcc", fn="eq" if op == "CBZ" else "ne", t=int(ops[1]))]
    A64_ALU = {"ADD": "add", "SUB": "sub", "AND": "and", "ORR": "or", "EOR": "xor", "LSL": "shl", "LSR": "shr",
               "ASR": "other", "ROR": "other", "MUL": "other", "BIC": "other", "ORN": "other", "EON": "other",
               "ADDW": "add", "SUBW": "sub", "ANDW": "and", "ORRW": "or", "EORW": "xor", "LSLW": "shl", "LSRW": "shr",
               "RORW": "other", "REV": "other", "REVW": "other", "REV16": "other", "CLZ": "other", "RBIT": "other",
               "NEG": "other", "MVN": "other"}
    if op in A64_ALU:
        o = [a64_operand(x) for x in ops]
        fn = A64_ALU[op]
        if len(o) == 2 and op in ("REV", "REVW", "REV16", "CLZ", "RBIT", "NEG", "MVN"):     # unary: dst = f(src)
            return [rec("mov", a=o[0], b=o[1], w=8), rec("alu", fn="other", a=o[1], b=o[1], w=8)]
        if len(o) == 2:
            return [rec("alu", fn=fn, a=o[0], b=o[1], w=8)]
        out = []
        if o[0]["k"] == "r" and o[0]["r"] == o[2]["r"]:
            # OP Rd, Rn, Rd: the destination already holds the first operand; combine it with Rn (the taint is
            # exact, the value only for the commutative operations)
            out.append(rec("alu", fn=fn if fn in ("add", "and", "or", "xor") else "other", a=o[1], b=o[2], w=8))
            return out
        if o[1]["r"] != o[2]["r"]:
            out.append(rec("mov", a=o[1], b=o[2], w=8))
        out.append(rec("alu", fn=fn, a=o[0], b=o[2], w=8))
        return out
    if op == "WORD":      # hand-encoded TBL/TBX  0 Q 001110 000 Rm 0 len op 00 Rn Rd
        imm = a64_operand(ops[0])["v"]
        if imm & 0xBFE08C00 != 0x0E000000:
            raise core.Infra("asm(arm64): WORD %#x is not a TBL/TBX encoding (%s)" % (imm, where))
        rd, rm = imm & 31, (imm >> 16) & 31
        d = dict(k="v", r="V%d" % rd, v=16)
        return [rec("vec", fn="TBX", a=dict(k="v", r="V%d" % rm, v=16), c=d, b=d, w=16)]
    base = op.split(".")[0]
    post = op.endswith(".P")
    if base in ("VLD1", "VLD2", "VLD3", "VLD4", "VST1", "VST2", "VST3", "VST4"):
        load = base.startswith("VLD")
        mem = a64_operand(ops[0] if load else ops[1])
        regs = a64_reglist(ops[1] if load else ops[0])
        if mem["k"] != "m":
            raise core.Infra("asm(arm64): %s without a memory operand (%s)" % (op, where))
        inc = mem["v"] if post else 0
        off = 0 if post else mem["v"]
        out = []
        for r in regs:
            m = dict(k="m", r=mem["r"], v=off)
            out.append(rec("vec", fn=base, a=m, b=r, w=r["v"]) if load else rec("vec", fn=base, a=r, b=m, w=r["v"]))
            off += r["v"]
        if post:
            if inc != off:
                raise core.Infra("asm(arm64): post-increment %d differs from the transfer size %d (%s)" % (inc, off, where))
            out.append(rec("alu", fn="add", a=dict(k="i", r="", v=inc), b=dict(k="r", r=mem["r"], v=0), w=8))
        return out
    if base in A64_VEC:
        o = []
        for x in ops:
            o += a64_reglist(x)
        srcs, dst = o[:-1], o[-1]
        data = [x for x in srcs if x["k"] != "i"]
        if not data:
            data = [x for x in srcs if x["k"] == "i"][:1]      # VMOVI: the immediate is the (public) source
        if len(data) > 2:     # VTBL: table registers hold public data; the index register decides the taint
            data = [data[0], data[-1]]
        return [rec("vec", fn=base, a=data[0] if data else NONE, c=data[1] if len(data) > 1 else NONE, b=dst,
                    w=max([x["v"] for x in data + [dst] if x["k"] == "v"] or [0]))]
    raise core.Infra("asm(arm64): opcode %s not in the semantics table (%s)" % (op, where))


def routines(path, arch="amd64"):
    """symbol -> list of instruction dicts (with pc, line, op text), branch targets as 1-based indices"""
    out, cur, name = {}, None, None
    for line in listing(path, arch).splitlines():
        m = TEXT.match(line)
        if m:
            name = m.group(1).split(".")[-1]
            cur = []
            out[name] = cur
            continue
        m = LINE.match(line)
        if not m or cur is None:
            continue
        pc, src, lno, op, rest = int(m.group(2)), m.group(3), int(m.group(4)), m.group(5), m.group(6)
        where = "%s:%d %s %s" % (src, lno, op, rest or "")
        if arch == "arm64":
            recs = classify_arm64(op, rest, where)
        else:
            recs = [classify(op, split_ops(rest), where)]
        for i, ins in enumerate(recs):
            ins.update(pc=pc, first=(i == 0), line=lno, txt=(op + " " + (rest or "")).strip(), src=src)
            cur.append(ins)
    # zero-size pseudo-instructions (TEXT, FUNCDATA, PCDATA, NOP) share their pc with the next real
    # instruction and are not executed by the CPU: drop them so that one machine step = one instruction
    for name in list(out):
        prog = out[name]
        keep = []
        for i, ins in enumerate(prog):
            if ins["cl"] == "nop" and i + 1 < len(prog) and prog[i + 1]["pc"] == ins["pc"]:
                continue
            keep.append(ins)
        out[name] = keep
    for name, prog in out.items():
        idx = {}
        for i, ins in enumerate(prog):
            if ins["first"]:
                idx.setdefault(ins["pc"], i + 1)
        for ins in prog:
            if ins["cl"] in ("jmp", "jcc"):
                if ins["t"] not in idx:
                    raise core.Infra("asm: branch target %d not an instruction of %s" % (ins["t"], name))
                ins["t"] = idx[ins["t"]]
    return out


def globl_sizes(paths):
    sizes = {}
    for p in paths:
        for line in open(p):
            m = re.match(r"^\s*GLOBL\s+(\w+)<>\(SB\),\s*\([^)]*\),\s*\$(\d+)", line)
            if m:
                sizes[m.group(1)] = int(m.group(2))
    return sizes


def tla_operand(o):
    return '[k |-> "%s", r |-> "%s", v |-> %d, x |-> "%s", sc |-> %d]' % (o["k"], o["r"], o["v"], o.get("x", ""), o.get("sc", 0))


def tla_prog(prog):
    rows = []
    for ins in prog:
        rows.append('[cl |-> "%s", fn |-> "%s", a |-> %s, b |-> %s, c |-> %s, w |-> %d, t |-> %d, line |-> %d]' % (
            ins["cl"], ins["fn"], tla_operand(ins["a"]), tla_operand(ins["b"]), tla_operand(ins["c"]), ins["w"],
            ins["t"], ins["line"]))
    return "<< " + ",\n   ".join(rows) + " >>"
