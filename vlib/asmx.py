"""Binding B3 for the assembly: the assembler's own macro-expanded listing (`go tool asm -S`) of
every .s file of the current tree is parsed into instruction records for the TLA+ abstract
machine (tla/AsmMachine.tla).  Classification only says which operands are read / written and
how wide a memory access is; what the values mean is decided in TLA+.  Anything unknown makes
the extractor raise Infra (exit 2): fail closed."""
import os, re, subprocess
from . import core

LINE = re.compile(r"^\t0x([0-9a-f]+) (\d+) \(([^):]+):(\d+)\)\t(\S+)(?:\t(.*))?$")
TEXT = re.compile(r"^(\S+) STEXT .* size=(\d+) args=(0x[0-9a-f]+)")

BYTE_REGS = {"AL": "AX", "BL": "BX", "CL": "CX", "DL": "DX", "SIB": "SI", "DIB": "DI"}
GPR = {"AX", "BX", "CX", "DX", "SI", "DI", "BP", "SP", "R8", "R9", "R10", "R11", "R12", "R13", "R14", "R15"}

MOVS = {"MOVQ": 8, "MOVL": 4, "MOVW": 2, "MOVB": 1}
ALU = {"ADDQ": ("add", 8), "SUBQ": ("sub", 8), "ANDQ": ("and", 8), "ORQ": ("or", 8), "XORQ": ("xor", 8),
       "SHLQ": ("shl", 8), "SHRQ": ("shr", 8), "ORB": ("or", 1), "XORB": ("xor", 1)}
JCC = {"JLT": "lt", "JEQ": "eq", "JGT": "gt", "JLE": "le", "JNE": "ne", "JGE": "ge"}
# vector opcodes whose memory source is narrower than the destination register
BCAST = {"VPBROADCASTD": 4, "VBROADCASTI32X2": 8, "VBROADCASTI32X4": 16}
VEC_OK = {"VPXORD", "VPROLD", "VPBROADCASTD", "VGF2P8AFFINEQB", "VGF2P8AFFINEINVQB", "VPCLMULQDQ", "VMOVDQU32",
          "VPSHUFB", "VPSRLDQ", "VPSLLDQ", "VPANDD", "VPUNPCKLDQ", "VPUNPCKHDQ", "VPADDD", "VPSRLW", "VPUNPCKLQDQ",
          "VPUNPCKHQDQ", "VPERMQ", "VMOVDQA64", "VBROADCASTI32X2", "VALIGND", "VBROADCASTI32X4", "VMOVAPD",
          "VPSLLQ", "PSLLO", "VMOVDQU8", "VMOVDQU64", "VPXORQ", "VPORD"}
ELEM = {"VMOVDQU32": 4, "VMOVDQU8": 1, "VMOVDQU64": 8, "VMOVDQA64": 8}

NONE = dict(k="n", r="", v=0)


def operand(txt):
    t = txt.strip()
    m = re.match(r"^\$(-?(?:0x[0-9a-fA-F]+|\d+))$", t)
    if m:
        return dict(k="i", r="", v=int(m.group(1), 0))
    m = re.match(r"^\$?(\w+)<>(?:\+(\d+))?\(SB\)$", t)
    if m:
        return dict(k="sb", r=m.group(1), v=int(m.group(2) or 0))
    m = re.match(r"^(\w+)\+(\d+)\(FP\)$", t)
    if m:
        return dict(k="fp", r=m.group(1), v=int(m.group(2)) - 8)
    m = re.match(r"^(-?\d+)?\((\w+)\)$", t)
    if m:
        if m.group(2) not in GPR:
            raise core.Infra("asm: memory base %s is not a general register" % m.group(2))
        return dict(k="m", r=m.group(2), v=int(m.group(1) or 0))
    m = re.match(r"^([XYZ])(\d+)$", t)
    if m:
        return dict(k="v", r="V" + m.group(2), v={"X": 16, "Y": 32, "Z": 64}[m.group(1)])
    if re.match(r"^K[0-7]$", t):
        return dict(k="kr", r=t, v=0)
    if t in GPR:
        return dict(k="r", r=t, v=0)
    if t in BYTE_REGS:
        return dict(k="rb", r=BYTE_REGS[t], v=0)
    m = re.match(r"^(R\d+)B$", t)
    if m:
        return dict(k="rb", r=m.group(1), v=0)
    raise core.Infra("asm: unsupported operand form %r" % txt)


def split_ops(s):
    return [x for x in (s or "").split(", ") if x != ""]


def classify(op, ops, where):
    """-> dict(cl, fn, a, b, c, w, t) ; a, c = sources, b = destination (Go operand order: last)"""
    skip = op in JCC or op in ("JMP", "NOP", "FUNCDATA", "TEXT", "PCDATA", "RET")
    o = [] if skip else [operand(x) for x in ops]
    ins = dict(cl="", fn="", a=NONE, b=NONE, c=NONE, w=0, t=0)
    if op in ("NOP", "FUNCDATA", "TEXT", "PCDATA"):
        ins["cl"] = "nop"
    elif op == "RET":
        ins["cl"] = "ret"
    elif op == "JMP":
        ins.update(cl="jmp", t=int(ops[0]))
    elif op in JCC:
        ins.update(cl="jcc", fn=JCC[op], t=int(ops[0]))
    elif op == "CMPQ":
        ins.update(cl="cmp", a=o[0], b=o[1], w=8)
    elif op == "LEAQ":
        ins.update(cl="lea", a=o[0], b=o[1], w=8)
    elif op in MOVS and any(x["k"] == "v" for x in o):
        ins.update(cl="vec", fn=op, a=o[0], b=o[1], w=MOVS[op])
    elif op in MOVS:
        ins.update(cl="mov", a=o[0], b=o[1], w=MOVS[op])
    elif op in ALU:
        ins.update(cl="alu", fn=ALU[op][0], a=o[0], b=o[1], w=ALU[op][1])
    elif op == "KMOVW":
        ins.update(cl="mov", a=o[0], b=o[1], w=2)
    elif op in VEC_OK:
        srcs, dst = o[:-1], o[-1]
        mask = [x for x in srcs if x["k"] == "kr"]
        srcs = [x for x in srcs if x["k"] not in ("i", "kr")]
        if len(srcs) > 2:
            raise core.Infra("asm: %s with %d data sources at %s" % (op, len(srcs), where))
        vecw = max([x["v"] for x in srcs + [dst] if x["k"] == "v"] or [0])
        w = BCAST.get(op, vecw)
        if op == "MOVQ":
            w = 8
        ins.update(cl="vec", fn=op, a=srcs[0] if srcs else NONE, c=srcs[1] if len(srcs) > 1 else NONE, b=dst, w=w)
        if mask:
            mem = [x for x in srcs + [dst] if x["k"] == "m"]
            if mem:                      # masked load / store: footprint decided by the (public) mask value
                if op not in ELEM:
                    raise core.Infra("asm: masked memory form of %s at %s" % (op, where))
                ins["cl"] = "vecmask"
                ins["c"] = mask[0]
                ins["t"] = ELEM[op]      # element size
    else:
        raise core.Infra("asm: opcode %s not in the semantics table (%s)" % (op, where))
    return ins


def listing(path, arch="amd64"):
    env = dict(core.GOENV, GOARCH=arch, GOOS="linux")
    goroot = subprocess.run(["go", "env", "GOROOT"], capture_output=True, text=True, env=env).stdout.strip()
    p = subprocess.run(["go", "tool", "asm", "-I", os.path.join(goroot, "pkg", "include"), "-p",
                        "github.com/bilibili/smgo/sm4", "-S", "-o", os.devnull, os.path.basename(path)],
                       cwd=os.path.dirname(path), capture_output=True, text=True, env=env)
    if p.returncode != 0:
        raise core.Infra("go tool asm failed on %s:\n%s" % (path, (p.stdout + p.stderr)[-2000:]))
    return p.stdout + p.stderr


def routines(path):
    """symbol -> list of instruction dicts (with pc, line, op text), branch targets as 1-based indices"""
    out, cur, name = {}, None, None
    for line in listing(path).splitlines():
        m = TEXT.match(line)
        if m:
            name = m.group(1).split(".")[-1]
            cur = []
            out[name] = cur
            continue
        m = LINE.match(line)
        if not m or cur is None:
            continue
        pc, src, lno, op, rest = int(m.group(2)), m.group(3), int(m.group(4)), m.group(5), m.group(6)
        where = "%s:%d %s %s" % (src, lno, op, rest or "")
        ins = classify(op, split_ops(rest), where)
        ins.update(pc=pc, line=lno, txt=(op + " " + (rest or "")).strip(), src=src)
        cur.append(ins)
    for name, prog in out.items():
        idx = {ins["pc"]: i + 1 for i, ins in enumerate(prog)}
        for ins in prog:
            if ins["cl"] in ("jmp", "jcc"):
                if ins["t"] not in idx:
                    raise core.Infra("asm: branch target %d not an instruction of %s" % (ins["t"], name))
                ins["t"] = idx[ins["t"]]
    return out


def globl_sizes(paths):
    sizes = {}
    for p in paths:
        for line in open(p):
            m = re.match(r"^\s*GLOBL\s+(\w+)<>\(SB\),\s*\([^)]*\),\s*\$(\d+)", line)
            if m:
                sizes[m.group(1)] = int(m.group(2))
    return sizes


def tla_operand(o):
    return '[k |-> "%s", r |-> "%s", v |-> %d]' % (o["k"], o["r"], o["v"])


def tla_prog(prog):
    rows = []
    for ins in prog:
        rows.append('[cl |-> "%s", fn |-> "%s", a |-> %s, b |-> %s, c |-> %s, w |-> %d, t |-> %d, line |-> %d]' % (
            ins["cl"], ins["fn"], tla_operand(ins["a"]), tla_operand(ins["b"]), tla_operand(ins["c"]), ins["w"],
            ins["t"], ins["line"]))
    return "<< " + ",\n   ".join(rows) + " >>"
