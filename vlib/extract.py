"""Binding B3: programs extracted from /repo's current sources become TLA+ constants
(module Extracted, written into the run directory's tla/ copy)."""
import json, os, subprocess
from . import core


def tla_str(s):
    return '"%s"' % s


def prog_to_tla(prog):
    items = []
    for i in prog:
        items.append('[op |-> %s, dst |-> %s, a |-> %s, b |-> %s, n |-> %d]' % (
            tla_str(i["op"]), tla_str(i["dst"]), tla_str(i["a"]), tla_str(i["b"]), i["n"]))
    return "<< " + ",\n     ".join(items) + " >>"


def raw_extract(chk):
    drv = chk.drv()
    p = core.sh([drv, "extract", core.REPO], check=False)
    if p.returncode != 0:
        raise core.Infra("extractor failed:\n" + p.stdout[-2000:])
    ex = json.loads(p.stdout.strip().splitlines()[-1])
    for k in ("seal_scratch_local", "open_scratch_local"):
        if isinstance(ex.get(k), dict):       # could not be decided from the source: recorded, assumed per-call
            chk.notes.append("%s could not be extracted: %s" % (k, ex[k].get("error")))
            ex[k] = True
    return ex


def write_extracted(chk):
    drv = chk.drv()
    p = core.sh([drv, "extract", core.REPO], check=False)
    if p.returncode != 0:
        raise core.Infra("extractor refused the sources (outside its grammar):\n" + p.stdout[-2000:])
    # stdout may carry stderr text in front (merged); the JSON object is the last line
    txt = p.stdout.strip().splitlines()[-1]
    ex = json.loads(txt)
    d = core.stage_specs(chk.rd)
    with open(os.path.join(d, "Extracted.tla"), "w") as f:
        f.write("----------------------------- MODULE Extracted -----------------------------\n")
        f.write("(* GENERATED at check time from %s by harness/drv extract: do not edit. *)\n" % core.REPO)
        for name in ("field_chain", "scalar_chain", "add", "double"):
            f.write("%s ==\n  %s\n" % ({"field_chain": "FieldChain", "scalar_chain": "ScalarChain", "add": "AddProg",
                                        "double": "DoubleProg"}[name], prog_to_tla(ex[name]["prog"])))
        for name, tn in (("field_chain", "Field"), ("scalar_chain", "Scalar")):
            f.write("%sDeclaredSquares == %d\n%sDeclaredMultiplies == %d\n" % (
                tn, max(0, ex[name].get("declared_squares", 0)), tn, max(0, ex[name].get("declared_multiplies", 0))))
            f.write("%sTemps == {%s}\n" % (tn, ", ".join(tla_str(t) for t in ex[name].get("temps", []))))
        f.write("=============================================================================\n")
    return ex
