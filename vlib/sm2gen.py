"""Input generators for the sm2 package checks (C01, C02, C03, C12, C13, C19)."""
from . import ecpy as ec
from .ecpy import N, P, b32

TWO256 = 1 << 256


def rb(rng, n):
    return [rng.randrange(256) for _ in range(n)]


def rscalar(rng):
    return rng.randrange(1, N - 1)


def limb_structured(rng, count, maxbits=256):
    """Values whose machine-word limbs (64/32/16/8 bits) have a regular shape: low or high part of
    every limb zero, a single bit, all-ones / top-bit limbs.  Word-wise routines (comparison,
    subtraction with a narrow accumulator, per-limb reductions, carries) treat these specially
    although they are ordinary numbers.  At least one non-zero limb; value < 2^maxbits."""
    out = []
    while len(out) < count:
        lb = rng.choice((64, 64, 32, 32, 16, 8))
        n = maxbits // lb
        kind = rng.choice(("lowzero", "lowzero", "highzero", "single", "pattern", "lowquarter", "carry", "borrow"))
        v = 0
        if kind in ("carry", "borrow"):
            # carry / borrow chains: the low j limbs all ones (v + 1 ripples through j limbs) or all zero (v - 1 does),
            # the rest random - a hand-written multi-word increment that drops a carry shows only here
            j = rng.randrange(1, n)
            v = rng.getrandbits(maxbits - j * lb) << (j * lb)
            if kind == "carry":
                v |= (1 << (j * lb)) - 1
            if v:
                out.append(v)
            continue
        for i in range(n):
            if kind == "lowzero":
                limb = rng.getrandbits(lb // 2) << (lb // 2)
            elif kind == "lowquarter":
                limb = rng.getrandbits(lb - lb // 4) << (lb // 4)
            elif kind == "highzero":
                limb = rng.getrandbits(lb // 2)
            elif kind == "single":
                limb = (1 << rng.randrange(lb)) if rng.random() < 0.3 else 0
            else:
                limb = rng.choice((0, (1 << lb) - 1, 1 << (lb - 1), 1, 1 << (lb // 2)))
            if rng.random() < 0.25:
                limb = 0
            v |= limb << (i * lb)
        if v:
            out.append(v)
    return out


def script_of(cands, tail_valid=None, rng=None):
    """A reader script delivering the given 32-byte candidates, one per Read."""
    steps = [dict(d=b32(c) if isinstance(c, int) else c, err="") for c in cands]
    return steps


class Gen:
    def __init__(self, rng):
        self.rng, self.cmds, self.sc = rng, [], 0

    def scenario(self, cls):
        self.sc += 1
        self.cmds.append(dict(sc=self.sc, op="scenario", cls=cls))
        return self.sc

    def add(self, sc_, op_, **kw):
        kw.update(sc=sc_, op=op_)
        self.cmds.append(kw)

    def one(self, cls_, op_, **kw):
        self.add(self.scenario(cls_), op_, **kw)


# ---------------------------------------------------------------- solving for rejection rules

def e_for_r(k, r):
    """digest e with (e + x1) mod n = r for nonce k"""
    x1 = ec.mul(k)[0]
    return (r - x1) % N


def rule_candidate(rng, rule, d):
    """(k, e) such that candidate k hits `rule` for key d and digest e.  For rules that need a
    particular e the caller must use that e for the whole stream."""
    if rule == "k_ge_n":
        return rng.choice([N, N + 1, TWO256 - 1, N + rng.randrange(2, TWO256 - N)]), None
    if rule == "k_zero":
        return 0, None
    k = rscalar(rng)
    if rule == "r_zero":
        return k, e_for_r(k, 0)
    if rule == "rk_n":
        return k, e_for_r(k, (N - k) % N)
    if rule == "s_zero":            # s = 0  <=>  k = r d (mod n)
        r = k * ec.inv_n(d) % N
        return k, e_for_r(k, r)
    raise ValueError(rule)


def valid_k_for(rng, d, e):
    """a nonce that the definition accepts for (d, e) (overwhelmingly any)"""
    while True:
        k = rscalar(rng)
        x1 = ec.mul(k)[0]
        r = (e + x1) % N
        if r == 0 or (r + k) % N == 0:
            continue
        s = ec.inv_n(1 + d) * (k - r * d) % N
        if s:
            return k


def leading_zero_case(rng, d, which, nz=1):
    """(k, e) giving a signature whose r / s / (r+s) mod n has nz leading zero bytes."""
    bound = 1 << (256 - 8 * nz)
    k = rscalar(rng)
    if which == "r":
        r = rng.randrange(1, bound)
    elif which == "s":          # r = (k - s(1+d)) / d
        s = rng.randrange(1, bound)
        r = (k - s * (1 + d)) * ec.inv_n(d) % N
    else:                       # t = r + s small:  s = k - t d,  r = t - s
        t = rng.randrange(1, bound)
        s = (k - t * d) % N
        r = (t - s) % N
    return k, e_for_r(k, r)
