"""Accelerator self-test: pure TLA+ definitions vs Java overrides on the same samples."""
import json, os, random, subprocess, shutil
from . import core

_done = {}


def _samples(rng, families):
    out = []
    r16 = lambda: rng.randrange(65536)
    edge = [0, 1, 0x7fff, 0x8000, 0xffff]
    if "bits" in families:
        for i in range(8):
            v = [[rng.choice(edge), rng.choice(edge)] if i < 3 else [r16(), r16()] for _ in range(8)]
            b = [rng.choice([0, 255]) if i < 2 else rng.randrange(256) for _ in range(64)]
            out.append(dict(f="sm3cf", v=v, b=b))
        for i in range(6):
            key = [0] * 16 if i == 0 else [255] * 16 if i == 1 else [rng.randrange(256) for _ in range(16)]
            out.append(dict(f="sm4rk", key=key))
            rk = [[r16(), r16()] for _ in range(32)]
            out.append(dict(f="sm4crypt", rk=rk, blk=[rng.randrange(256) for _ in range(16)]))
        for i in range(10):
            x = [rng.choice(edge) if i < 4 else r16() for _ in range(8)]
            y = [rng.choice(edge) if i < 2 else r16() for _ in range(8)]
            out.append(dict(f="lmul", x=x, y=y))
        out.append(dict(f="lmul", x=[0x8000, 0, 0, 0, 0, 0, 0, 0], y=[r16() for _ in range(8)]))
        out.append(dict(f="lmul", x=[0, 0, 0, 0, 0, 0, 0, 1], y=[0, 0, 0, 0, 0, 0, 0, 1]))
    if "big" in families:
        vals = [0, 1, 2, SM2N - 1, SM2N, SM2N + 1, SM2P - 1, SM2P, (1 << 256) - 1, 1 << 255, (1 << 128) - 1]
        for i in range(3):       # full size: the pure binary long division costs ~2.5 s per Mod
            a = rng.choice(vals) if i < 1 else rng.getrandbits(256)
            b = rng.choice(vals) if i < 1 else rng.getrandbits(256)
            out.append(dict(f="bn2", a=nb(a, rng.choice([0, 32, 33])), b=nb(b, rng.choice([0, 32])),
                            m=nb(rng.choice([SM2N, SM2P]))))
        small = [0, 1, 255, 256, 65535, 65536, (1 << 64) - 1, 1 << 64]
        for i in range(16):
            a = rng.choice(small) if i < 6 else rng.getrandbits(rng.choice([8, 16, 63, 64, 72]))
            b = rng.choice(small) if i < 4 else rng.getrandbits(rng.choice([8, 17, 64]))
            m = rng.getrandbits(rng.choice([8, 16, 40, 64])) | 1
            out.append(dict(f="bn2", a=nb(a, rng.choice([0, 9])), b=nb(b), m=nb(m)))
        for m in (251, 65521, 37):
            for _ in range(2):
                out.append(dict(f="bnexp", a=nb(rng.randrange(0, 70000)), e=nb(rng.randrange(0, 70000)), m=nb(m)))
            out.append(dict(f="bnexp", a=nb(0), e=nb(5), m=nb(m)))
    return out


SM2P = 0xFFFFFFFEFFFFFFFFFFFFFFFFFFFFFFFFFFFFFFFF00000000FFFFFFFFFFFFFFFF
SM2N = 0xFFFFFFFEFFFFFFFFFFFFFFFFFFFFFFFF7203DF6B21C6052B53BBF40939D54123
SM2B = 0x28E9FA9E9D9F5E344D5A9E4BCF6509A7F39789F515AB8F92DDBCBD414D940E93
SM2GX = 0x32C4AE2C1F1981195F9904466A39C9948FE30BBFF2660BE1715A4589334C74C7
SM2GY = 0xBC3736A2F4F6779C59BDCEE36B692153D0A9877CC62A474002DF32E52139F0A0


def nb(v, width=0):
    """big-endian byte list; width 0 = minimal, else left-padded"""
    n = max((v.bit_length() + 7) // 8, width)
    return list(v.to_bytes(n, "big")) if n else []


def _samples_l2(rng):
    """level 2: (a) toy curve in the BigNat carrier, pure vs full; (b) SM2 curve, L1 vs full;
    (c) inverse property at 256 bits (accelerated only)."""
    toy, big, prop = [], [], []
    for k in (0, 1, 2, 36, 37, 38, 63):
        toy.append(dict(f="ecmul", p=nb(43), a=nb(40), b=nb(10), k=nb(k), pt=[nb(6), nb(6)], nbits=7))
    g = [nb(SM2GX), nb(SM2GY)]
    for k in (1, 2, SM2N - 1, SM2N, rng.getrandbits(256), rng.getrandbits(256)):
        big.append(dict(f="ecmul", p=nb(SM2P), a=nb(SM2P - 3), b=nb(SM2B), k=nb(k), pt=g, nbits=256))
    big.append(dict(f="ecmul", p=nb(SM2P), a=nb(SM2P - 3), b=nb(SM2B), k=nb(5), pt=[], nbits=256))
    for m in (SM2N, SM2P):
        for a in (1, 2, m - 1, rng.getrandbits(255), rng.getrandbits(256)):
            prop.append(dict(f="bninvok", a=nb(a), m=nb(m)))
    return toy, big, prop


def _run(rd, samples, accel, tag):
    d = core.stage_specs(rd)
    tf = os.path.join(rd, "accel.%s.ndjson" % tag)
    of = os.path.join(rd, "accel.%s.out.json" % tag)
    with open(tf, "w") as f:
        for s in samples:
            f.write(json.dumps(s) + "\n")
    md = os.path.join(rd, "md_accel_" + tag)
    cmd = core._java_cmd(bool(accel), "2g", level=(accel if isinstance(accel, str) else "full")) + ["-metadir", md, "-workers", "1", "-nowarning", "-config", "T_Accel.cfg",
                                         "T_Accel.tla"]
    e = dict(os.environ, VERIF_TRACE=tf, VERIF_OUT=of)
    e.pop("JAVA_TOOL_OPTIONS", None)
    p = subprocess.Popen(cmd, cwd=d, env=e, stdout=subprocess.PIPE, stderr=subprocess.STDOUT, text=True)
    return p, of, md


def selftest(chk, families=("bits",)):
    """Runs once per check; raises Infra when an override disagrees with its definition."""
    key = tuple(sorted(families))
    if key in _done:
        return _done[key]
    rng = random.Random(core.seed() * 7919 + 17)
    samples = _samples(rng, families)
    heavy = [s for s in samples if s["f"] == "bn2" and len(s["m"]) >= 32]
    light = [s for s in samples if not (s["f"] == "bn2" and len(s["m"]) >= 32)]
    parts = [light] + [[h] for h in heavy]
    procs = []
    for i, part in enumerate(parts):
        if part:
            procs.append((_run(chk.rd, part, False, "pure%d" % i), _run(chk.rd, part, True, "java%d" % i), part))
    for (pp, jp, part) in procs:
        outs = []
        for p, o, m in (pp, jp):
            out, _ = p.communicate(timeout=900)
            shutil.rmtree(m, ignore_errors=True)
            if p.returncode != 0 or not os.path.exists(o):
                raise core.Infra("accelerator self-test run failed:\n" + core._tail(out))
            outs.append(json.load(open(o)))
        if outs[0]["n"] != len(part) or outs[0] != outs[1]:
            raise core.Infra("accelerator disagrees with its TLA+ definition on a sample of kind %s" % part[0]["f"])
    n2 = 0
    if "big" in families:
        toy, big, prop = _samples_l2(rng)
        runs = [(toy, False, "toy_pure"), (toy, "full", "toy_full"), (big, "L1", "big_l1"), (big, "full", "big_full"),
                (prop, "full", "prop")]
        ps = [(_run(chk.rd, smp, acc, tag), smp) for smp, acc, tag in runs]
        res = []
        for (p, o, m), smp in ps:
            out, _ = p.communicate(timeout=900)
            shutil.rmtree(m, ignore_errors=True)
            if p.returncode != 0 or not os.path.exists(o):
                raise core.Infra("accelerator self-test (level 2) failed:\n" + core._tail(out))
            r = json.load(open(o))
            if r["n"] != len(smp):
                raise core.Infra("accelerator self-test (level 2) incomplete")
            res.append(r["res"])
        if res[0] != res[1]:
            raise core.Infra("EC accelerator disagrees with the pure TLA+ double-and-add on the toy curve")
        if res[2] != res[3]:
            raise core.Infra("EC accelerator disagrees with the TLA+ double-and-add (BigNat level-1) on the SM2 curve")
        if any(x != [1] for x in res[4]):
            raise core.Infra("ModInv accelerator: a * ModInv(a) # 1")
        n2 = len(toy) + len(big) + len(prop)
    _done[key] = len(samples) + n2
    chk.notes.append("accelerator self-test: %d samples, pure TLA+ = Java override" % _done[key])
    chk.extra["accelerator_selftest_samples"] = _done[key]
    return _done[key]
