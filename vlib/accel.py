"""Accelerator self-test: pure TLA+ definitions vs Java overrides on the same samples."""
import json, os, random, subprocess, shutil
from . import core

_done = {}


def _samples(rng, families):
    out = []
    r16 = lambda: rng.randrange(65536)
    edge = [0, 1, 0x7fff, 0x8000, 0xffff]
    if "bits" in families:
        for i in range(8):
            v = [[rng.choice(edge), rng.choice(edge)] if i < 3 else [r16(), r16()] for _ in range(8)]
            b = [rng.choice([0, 255]) if i < 2 else rng.randrange(256) for _ in range(64)]
            out.append(dict(f="sm3cf", v=v, b=b))
        for i in range(6):
            key = [0] * 16 if i == 0 else [255] * 16 if i == 1 else [rng.randrange(256) for _ in range(16)]
            out.append(dict(f="sm4rk", key=key))
            rk = [[r16(), r16()] for _ in range(32)]
            out.append(dict(f="sm4crypt", rk=rk, blk=[rng.randrange(256) for _ in range(16)]))
        for i in range(10):
            x = [rng.choice(edge) if i < 4 else r16() for _ in range(8)]
            y = [rng.choice(edge) if i < 2 else r16() for _ in range(8)]
            out.append(dict(f="lmul", x=x, y=y))
        out.append(dict(f="lmul", x=[0x8000, 0, 0, 0, 0, 0, 0, 0], y=[r16() for _ in range(8)]))
        out.append(dict(f="lmul", x=[0, 0, 0, 0, 0, 0, 0, 1], y=[0, 0, 0, 0, 0, 0, 0, 1]))
    return out


def _run(rd, samples, accel, tag):
    d = core.stage_specs(rd)
    tf = os.path.join(rd, "accel.%s.ndjson" % tag)
    of = os.path.join(rd, "accel.%s.out.json" % tag)
    with open(tf, "w") as f:
        for s in samples:
            f.write(json.dumps(s) + "\n")
    md = os.path.join(rd, "md_accel_" + tag)
    cmd = core._java_cmd(accel, "2g") + ["-metadir", md, "-workers", "1", "-nowarning", "-config", "T_Accel.cfg",
                                         "T_Accel.tla"]
    e = dict(os.environ, VERIF_TRACE=tf, VERIF_OUT=of)
    e.pop("JAVA_TOOL_OPTIONS", None)
    p = subprocess.Popen(cmd, cwd=d, env=e, stdout=subprocess.PIPE, stderr=subprocess.STDOUT, text=True)
    return p, of, md


def selftest(chk, families=("bits",)):
    """Runs once per check; raises Infra when an override disagrees with its definition."""
    key = tuple(sorted(families))
    if key in _done:
        return _done[key]
    rng = random.Random(core.seed() * 7919 + 17)
    samples = _samples(rng, families)
    p1, o1, m1 = _run(chk.rd, samples, False, "pure")
    p2, o2, m2 = _run(chk.rd, samples, True, "java")
    outs = []
    for p, o, m in ((p1, o1, m1), (p2, o2, m2)):
        out, _ = p.communicate(timeout=900)
        shutil.rmtree(m, ignore_errors=True)
        if p.returncode != 0 or not os.path.exists(o):
            raise core.Infra("accelerator self-test run failed:\n" + core._tail(out))
        outs.append(json.load(open(o)))
    if outs[0]["n"] != len(samples) or outs[0] != outs[1]:
        bad = [i for i, (a, b) in enumerate(zip(outs[0]["res"], outs[1]["res"])) if a != b]
        raise core.Infra("accelerator disagrees with its TLA+ definition on samples %s" % bad[:5])
    _done[key] = len(samples)
    chk.notes.append("accelerator self-test: %d samples, pure TLA+ = Java override" % len(samples))
    chk.extra["accelerator_selftest_samples"] = len(samples)
    return len(samples)
