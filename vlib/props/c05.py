"""C05 - SM4: all block paths compute the GB/T 32907 permutation and its inverse."""
from .. import core
from ..run import Check, generic_replay

PROP = "C05"
STD = [0x01, 0x23, 0x45, 0x67, 0x89, 0xab, 0xcd, 0xef, 0xfe, 0xdc, 0xba, 0x98, 0x76, 0x54, 0x32, 0x10]
KERNELS = [("go1", 1), ("go2", 2), ("asm1", 1), ("asm2", 2), ("asm4", 4), ("asm8", 8), ("asm16", 16)]


def rb(rng, n):
    return [rng.randrange(256) for _ in range(n)]


def special_blocks(rng):
    out = [[0] * 16, [255] * 16, list(STD)]
    for bit in (0, 7, 8, 63, 64, 127):
        b = [0] * 16
        b[bit // 8] = 1 << (7 - bit % 8)
        out.append(b)
    return out


def gen(chk, tier):
    rng, cmds, sc = chk.rng, [], [0]

    def scenario(cls):
        sc[0] += 1
        cmds.append(dict(sc=sc[0], op="scenario", cls=cls))
        return sc[0]

    def add(k, op, **kw):
        kw.update(sc=k, op=op)
        cmds.append(kw)

    nkeys = 6 if tier == "quick" else 1500
    keys = [list(STD), [0] * 16, [255] * 16] + [rb(rng, 16) for _ in range(nkeys)]
    # key schedules, word for word
    for key in keys:
        k = scenario("keyschedule")
        add(k, "sm4.expandkey", key=key)
    # public Block interface, accelerated path on / off, in place and not, key slice scribbled
    for key in keys:
        for asm in (True, False):
            k = scenario("block_%s" % ("asm" if asm else "portable"))
            add(k, "sm4.newcipher", h="c", key=key, asm=asm)
            add(k, "sm4.scribblekey", h="c")
            blocks = special_blocks(rng)[: (4 if tier == "quick" else 99)] + [rb(rng, 16) for _ in range(3)]
            for b in blocks:
                inplace = rng.random() < 0.5
                add(k, "sm4.crypt", h="c", dec=False, src=b, inplace=inplace)
                add(k, "sm4.crypt", h="c", dec=True, src=b, inplace=not inplace)
    # consecutive constructions with DIFFERENT keys that collide under cheap fingerprints (CRC-32,
    # byte sum, XOR fold, equal halves): a construction cache keyed on such a fingerprint would hand
    # out the wrong schedule.  Both ciphers are used after both have been built.
    import zlib

    def crc_collision(k1):
        # crc32 is affine: crc(m ^ d) = crc(m) ^ L(d); find d # 0 confined to bytes 11..15 with L(d) = 0
        base = zlib.crc32(bytes(16))
        cols = []
        for bit in range(40):
            dd = bytearray(16)
            dd[11 + bit // 8] = 1 << (bit % 8)
            cols.append(zlib.crc32(bytes(dd)) ^ base)
        # Gaussian elimination for a kernel vector over GF(2)
        rows = [(cols[i], 1 << i) for i in range(40)]
        piv = {}
        for val, comb in rows:
            for b in range(31, -1, -1):
                if not (val >> b) & 1:
                    continue
                if b in piv:
                    val ^= piv[b][0]
                    comb ^= piv[b][1]
                else:
                    piv[b] = (val, comb)
                    break
            if val == 0 and comb:
                k2 = bytearray(k1)
                for bit in range(40):
                    if (comb >> bit) & 1:
                        k2[11 + bit // 8] ^= 1 << (bit % 8)
                return list(k2)
        return None

    for _ in range(3 if tier == "quick" else 30):
        k1 = rb(rng, 16)
        pairs = []
        c = crc_collision(k1)
        if c and zlib.crc32(bytes(c)) == zlib.crc32(bytes(k1)) and c != k1:
            pairs.append(("crc32", c))
        k2 = list(k1); k2[3] = (k2[3] + 1) % 256; k2[9] = (k2[9] - 1) % 256
        pairs.append(("bytesum", k2))
        k3 = list(k1); k3[0] ^= 0x5a; k3[4] ^= 0x5a
        pairs.append(("xorfold32", k3))
        k4 = list(k1); k4[15] ^= 1
        pairs.append(("same_first_15", k4))
        k5 = list(k1); k5[0] ^= 0x80
        pairs.append(("same_last_15", k5))
        for name, kk in pairs:
            for asm in (True, False):
                k = scenario("keypair_colliding_" + name)
                add(k, "sm4.newcipher", h="c1", key=k1, asm=asm)
                add(k, "sm4.newcipher", h="c2", key=kk, asm=asm)
                blk = rb(rng, 16)
                add(k, "sm4.crypt", h="c2", dec=False, src=blk, inplace=False)
                add(k, "sm4.crypt", h="c1", dec=False, src=blk, inplace=False)
                add(k, "sm4.crypt", h="c2", dec=True, src=blk, inplace=False)
    # slices longer than one block (the first block of the result is judged)
    for asm in (True, False):
        k = scenario("block_long_slices_%s" % ("asm" if asm else "portable"))
        add(k, "sm4.newcipher", h="c", key=rb(rng, 16), asm=asm)
        for (sl, dl) in ((17, 16), (32, 32), (48, 17), (16, 64), (33, 40)):
            for dec in (False, True):
                add(k, "sm4.crypt", h="c", dec=dec, src=rb(rng, sl), inplace=False, dstlen=dl)
                add(k, "sm4.crypt", h="c", dec=dec, src=rb(rng, sl), inplace=True)
    # the caller's key BUFFER reused: NewCipher(buf) with k1, then buf is overwritten with k2 (or wiped) and
    # handed to NewCipher again - the second cipher is k2's and the first stays k1's (nothing may remember
    # the slice instead of its contents), for 1..3 reuses and both paths
    for _ in range(3 if tier == "quick" else 40):
        for asm in (True, False):
            k = scenario("keybuffer_reused")
            k1 = rb(rng, 16)
            add(k, "sm4.newcipher", h="c1", key=k1, asm=asm)
            blk = rb(rng, 16)
            add(k, "sm4.crypt", h="c1", dec=False, src=blk, inplace=False)
            prev = "c1"
            for j, kk in enumerate([rb(rng, 16), [0] * 16, k1][: rng.choice([1, 2, 3])]):
                h = "d%d" % j
                add(k, "sm4.newcipher", h=h, key=kk, asm=asm, keyof=prev)
                add(k, "sm4.crypt", h=h, dec=False, src=blk, inplace=False)
                add(k, "sm4.crypt", h=h, dec=True, src=blk, inplace=True)
                add(k, "sm4.crypt", h="c1", dec=False, src=blk, inplace=False)
                prev = h
    # key length rule
    for L in list(range(0, 41)):
        k = scenario("keylen_%s" % ("16" if L == 16 else "bad"))
        add(k, "sm4.newcipher", h="c", key=rb(rng, L), asm=bool(L % 2))
    # kernels: pairwise distinct blocks per lane, both directions, both schedules
    reps = 2 if tier == "quick" else 60
    for name, n in KERNELS:
        for rep in range(reps):
            for dec in (False, True):
                for sched in ("go", "asm"):
                    if tier == "quick" and rep == 1 and sched == "go" and name.startswith("asm") and n > 4:
                        continue
                    k = scenario("kernel_%s" % name)
                    key = keys[rng.randrange(len(keys))]
                    src = []
                    for lane in range(n):
                        blk = rb(rng, 16)
                        blk[0] = lane            # distinct per lane
                        src += blk
                    add(k, "sm4.kernel", kernel=name, key=key, dec=dec, sched=sched, src=src,
                        inplace=(rep % 2 == 1))
    # one lane "hot", the others zero: a lane mix-up cannot hide
    for name, n in KERNELS:
        if n == 1:
            continue
        lanes = range(n) if tier == "thorough" else sorted(set([0, n - 1, rng.randrange(n)]))
        for lane in lanes:
            k = scenario("kernel_lane_%s" % name)
            src = [0] * (16 * n)
            src[16 * lane:16 * lane + 16] = rb(rng, 16)
            add(k, "sm4.kernel", kernel=name, key=list(STD), dec=False, sched="asm", src=src, inplace=False)
    return cmds


def keyfn(b):
    ev = b["ev"]
    tag = ev.get("kernel") or ("asm" if ev.get("asm") else "") or ""
    h = ""
    if ev["op"] == "sm4.crypt":
        h = ".dec" if ev.get("dec") else ".enc"
    return "%s%s%s.%s" % (ev["op"], "." + tag if tag else "", h, b["why"].split(": ")[1].replace(" ", "_").replace("/", "or"))


def cost(g):
    c = 0
    for e in g:
        c += 70 + len(e.get("src", [])) * 2
    return c


def run(tier):
    chk = Check(PROP, tier)
    chk.model("MC_Vectors")
    chk.model("MC_SM4Struct", cfg="MC_SM4Struct.cfg" if tier == "quick" else "MC_SM4Struct_thorough.cfg")
    cmds = gen(chk, tier)
    chk.exec_and_validate("T_SM4", cmds, keyfn, cost=cost)
    chk.first_use("T_SM4", cmds, keyfn, count=8)
    return chk.finish(
        "model_checking",
        "keys (standard, all-zero, all-FF, random) x blocks (standard, extremes, single-bit, random) through the "
        "public Block with the accelerated path on and off (in place and not, key slice overwritten after "
        "construction), both key schedules word for word, every kernel (portable 1/2-block, vector 1/2/4/8/16) with "
        "pairwise distinct blocks per lane and one-hot lanes, key lengths 0..40, key pairs colliding under cheap "
        "fingerprints, the caller's key BUFFER reused for the next key / wiped (no retained slice), slices longer than one "
        "block (the first block is judged); TLC recomputes every output block "
        "with the pure TLA+ SM4 (algebraic S-box = table and the standard example checked every run)",
        ["TLC; SM4.tla validated by the GB/T 32907 example and the algebraic S-box identity",
         "arm64 NEON kernels cannot be executed in this sandbox and are not covered",
         "keys and blocks are sampled; structure (Feistel inversion for any round function) exhaustive at toy size"])


def replay(path):
    return generic_replay(PROP, path)
