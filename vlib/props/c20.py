"""C20 - comparison and signed-window recoding helpers are exact."""
from .. import core
from ..run import Check, generic_replay

PROP = "C20"
N = 0xFFFFFFFEFFFFFFFFFFFFFFFFFFFFFFFF7203DF6B21C6052B53BBF40939D54123
P = 0xFFFFFFFEFFFFFFFFFFFFFFFFFFFFFFFFFFFFFFFF00000000FFFFFFFFFFFFFFFF


def b32(v, n=32):
    return list(v.to_bytes(n, "big"))


def structured_scalars(rng, tier):
    """256-bit integers with every window value at every position (others 0 / others 1)."""
    out = [0, 1, 2, 3, N - 1, N, N + 1, P, (1 << 256) - 1, 1 << 255, (1 << 255) - 1]
    step = 8 if tier == "quick" else 1
    for pos in range(0, 252, step):
        for val in ([1, 7, 8, 9, 15, 16, 31] if tier == "quick" else range(1, 32)):
            v = (val << pos) & ((1 << 256) - 1)
            out.append(v)
            out.append(((1 << 256) - 1) ^ v)
    for k in range(1, 32):          # long runs of ones / carries rippling through bytes
        out.append((1 << (8 * k)) - 1)
        out.append((1 << (8 * k)) + 1)
        out.append(((1 << 256) - 1) ^ ((1 << (8 * k)) - 1))
    for _ in range(60 if tier == "quick" else 3000):
        out.append(rng.getrandbits(256))
    return out


def gen(chk, tier):
    rng, cmds, sc = chk.rng, [], [0]

    def one(cls, **kw):
        sc[0] += 1
        cmds.append(dict(sc=sc[0], op="scenario", cls=cls))
        kw["sc"] = sc[0]
        cmds.append(kw)

    # comparison: equal prefix, difference at each byte position, both directions
    for pos in range(32):
        for (x, y) in [(0, 1), (1, 0), (0, 255), (255, 0), (127, 128), (128, 127)]:
            base = [rng.randrange(256) for _ in range(32)]
            a, b = list(base), list(base)
            a[pos], b[pos] = x, y
            # later bytes in the opposite direction, to expose a broken borrow chain
            for j in range(pos + 1, 32):
                a[j], b[j] = (255, 0) if x < y else (0, 255)
            one("cmp_diff_at_%d" % pos, op="utils.cmp", a=a, b=b, l=32)
            if pos % 4 == 0:
                one("cmp_short_l", op="utils.cmp", a=a, b=b, l=pos)       # l < len: equal prefix
    ext = [b32(0), b32((1 << 256) - 1), b32(N), b32(N - 1), b32(P), b32(P - 1), b32(1)]
    for a in ext:
        for b in ext:
            one("cmp_extreme", op="utils.cmp", a=a, b=b, l=32)
    for L in [0, 1, 2, 16, 31, 33, 64]:
        a = [rng.randrange(256) for _ in range(L)]
        one("cmp_len_%d" % L, op="utils.cmp", a=a, b=list(a), l=L)
        if L:
            b = list(a); b[-1] ^= 1
            one("cmp_len_%d" % L, op="utils.cmp", a=a, b=b, l=L)
    # ALL pairs of short strings over small alphabets: whatever way the per-byte differences are
    # accumulated (or, add, xor, last-only), a wrong accumulator is exposed by some pair here
    import itertools
    for alpha, L in (((0, 1, 2, 3, 127, 128, 254, 255), 2), ((0, 1, 2, 255), 3)):
        for a in itertools.product(alpha, repeat=L):
            for b in itertools.product(alpha, repeat=L):
                one("cmp_all_short_pairs", op="utils.cmp", a=list(a), b=list(b), l=L)
    for _ in range(200 if tier == "quick" else 20000):
        a = [rng.choice([0, 255, rng.randrange(256)]) for _ in range(32)]
        b = list(a)
        for _ in range(rng.randrange(0, 3)):
            b[rng.randrange(32)] = rng.randrange(256)
        one("cmp_random", op="utils.cmp", a=a, b=b, l=32)
    # recoding
    ws = range(1, 8)
    for i, v in enumerate(structured_scalars(rng, tier)):
        for w in (ws if (tier == "thorough" or i % 3 == 0) else [4, 1 + i % 7]):
            one("naf_w%d" % w, op="utils.naf", s=b32(v), n=257, w=w)
    # a zeroed workspace longer than n (callers may hand in a bigger slice): nothing beyond place n
    for i, v in enumerate(structured_scalars(rng, "quick")[:24]):
        for extra in (1, 7, 63):
            one("naf_longer_workspace", op="utils.naf", s=b32(v), n=257, w=1 + (i + extra) % 7, extra=extra)
    for nbytes in [1, 2, 3, 8, 31, 33]:
        for _ in range(4):
            v = rng.getrandbits(8 * nbytes)
            for w in ws:
                one("naf_len_%d" % nbytes, op="utils.naf", s=b32(v, nbytes), n=8 * nbytes + 1, w=w)
    return cmds


def keyfn(b):
    ev = b["ev"]
    if ev["op"] == "utils.cmp":
        return "utils.cmp.result" if not ev["panic"] else "utils.cmp.panic"
    return "utils.naf.w%d.%s" % (ev["w"], b["why"].split(": ")[1].replace(" ", "_"))


def run(tier):
    chk = Check(PROP, tier)
    chk.model("MC_CmpNaf", cfg="MC_CmpNaf.cfg" if tier == "quick" else "MC_CmpNaf_thorough.cfg")
    cmds_ = gen(chk, tier)
    chk.exec_and_validate("T_Util", cmds_, keyfn)
    chk.first_use("T_Util", cmds_, keyfn)
    return chk.finish(
        "model_checking",
        "model: the borrow-chain comparison and the recoding loop as coded (CmpNaf.tla) against the definitions "
        "(Util.tla) for all pairs of 3-symbol strings and all 16-bit inputs x w=1..7; traces: 256-bit pairs differing "
        "at each byte position in each direction with adverse later bytes, extremes, l < len, structured 256-bit "
        "integers (every window value at every position, all-ones complement, byte-boundary carries) x w, other "
        "lengths, seeded random; distinct non-trivial = scenarios by class",
        ["TLC; Util.tla is the definition (lexicographic order; NAF shape and value by bitwise carry reconstruction)",
         "sampled 256-bit inputs, exhaustive only at 16 bits"])


def replay(path):
    return generic_replay(PROP, path)
