"""C07 - SM4-GCM: Open releases plaintext only for an authentic message."""
from .. import core
from ..run import Check, generic_replay
from .c06 import rb, ladder_lengths, cost

PROP = "C07"


def seal_all(chk, items):
    """Seals (key, nonce, aad, pt, tagsize) with the standard library's generic GCM over the
    portable cipher (input preparation only; TLC judges every Open from scratch)."""
    cmds = []
    for i, (key, nonce, aad, pt, ts) in enumerate(items):
        cmds.append(dict(sc=i, op="scenario"))
        path = "generic" if (len(nonce) == 12 or ts == 16) else "asm"
        cmds.append(dict(sc=i, op="gcm.aead", h="a", key=key, noncesize=len(nonce), tagsize=ts, path=path))
        cmds.append(dict(sc=i, op="gcm.seal", h="a", nonce=nonce, aad=aad, pt=pt, prefix=[], spare=-1, alias="none",
                         repeat=False, j="v"))
    evs = core.run_driver(chk.drv(), cmds, chk.rd, tag="preseal")
    return [evs[3 * i + 2]["out"] for i in range(len(items))]


def flip(b, bit):
    o = list(b)
    o[bit // 8] ^= 1 << (7 - bit % 8)
    return o


def gen(chk, tier):
    rng, cmds, sc = chk.rng, [], [0]
    q = tier == "quick"
    key = rb(rng, 16)
    items = []
    # short messages: every bit; long ones (every ladder class): chunk boundaries
    short = [0, 1, 5, 16, 17] if q else list(range(0, 49))
    for L in short:
        items.append((key, rb(rng, 12), rb(rng, rng.choice([0, 7])), rb(rng, L), 16))
    longs = ladder_lengths(rng, "quick")
    if q:
        longs = [l for i, l in enumerate(longs) if i % 4 == 1]
    for L in longs:
        items.append((key, rb(rng, 12), rb(rng, rng.choice([0, 13, 130])), rb(rng, L), 16))
    for ts in (12, 13, 14, 15):
        items.append((key, rb(rng, 12), rb(rng, 3), rb(rng, rng.choice([0, 3, 21])), ts))
        items.append((key, rb(rng, 12), rb(rng, 0), rb(rng, 0), ts))
    for n in (1, 16, 129):
        items.append((key, rb(rng, n), rb(rng, 10), rb(rng, 30), 16))
    # every stage (8/4/2/1 bytes) of the nonce- and aad-tail staging in the Open expansion of the shared macros, and
    # the 4-way GHASH of a long nonce (measured with PC traces: these instructions were not reached otherwise)
    for n, al in ((14, 14), (15, 2), (7, 15), (30, 9), (144, 64), (200, 130)):
        items.append((key, rb(rng, n), rb(rng, al), rb(rng, rng.choice([5, 33])), 16))
    sealed = seal_all(chk, items)

    def opens(cls, key, ts, cases):
        sc[0] += 1
        k = sc[0]
        cmds.append(dict(sc=k, op="scenario", cls=cls))
        aeads = {}
        for (nonce, aad, ct) in cases:
            ns = len(nonce)
            if ns not in aeads:
                aeads[ns] = "a%d" % ns
                cmds.append(dict(sc=k, op="gcm.aead", h=aeads[ns], key=key, noncesize=ns, tagsize=ts, path="asm"))
            cmds.append(dict(sc=k, op="gcm.open", h=aeads[ns], nonce=nonce, aad=aad, ct=ct, prefix=[], spare=-1,
                             alias="none", repeat=False, j="v"))

    def opens_room(cls, key, ts, cases):
        """refused messages opened into a destination WITH room (spare capacity behind dst, or in place): nothing
        that is the decryption of the body may be left there"""
        sc[0] += 1
        k = sc[0]
        cmds.append(dict(sc=k, op="scenario", cls=cls))
        cmds.append(dict(sc=k, op="gcm.aead", h="a", key=key, noncesize=len(cases[0][0]), tagsize=ts, path="asm"))
        for (nonce, aad, ct) in cases:
            body = len(ct) - ts
            for alias, spare, prefix in (("none", body + 3, []), ("none", body, [9, 9, 9]), ("inplace", 0, [])):
                cmds.append(dict(sc=k, op="gcm.open", h="a", nonce=nonce, aad=aad, ct=ct, prefix=prefix, spare=spare,
                                 alias=alias, repeat=False, j="v"))

    for (key_, nonce, aad, pt, ts), ct in zip(items, sealed):
        L = len(pt)
        opens("authentic", key_, ts, [(nonce, aad, ct)])
        if L >= 4:
            forged = [flip(ct, 8 * L + rng.randrange(8 * ts)), flip(ct, rng.randrange(8 * L)), flip(ct, 8 * (L + ts) - 1)]
            opens_room("refused_with_room", key_, ts, [(nonce, aad, f) for f in forged]
                       + ([(nonce, flip(aad, 0), ct)] if aad else []))
        # every bit of the tag
        opens("tag_bit", key_, ts, [(nonce, aad, flip(ct, 8 * L + b)) for b in range(8 * ts)])
        # ciphertext bits
        if L <= 48:
            bits = range(8 * L)
        else:
            bnd = set()
            for off in list(range(0, L, 16)) + [L - 1]:
                bnd.update([8 * off, 8 * off + 7, 8 * min(off + 15, L - 1) + 7])
            bits = sorted(bnd)
            if q:
                bits = bits[::3]
        if L:
            opens("ct_bit", key_, ts, [(nonce, aad, flip(ct, b)) for b in bits])
        # aad and nonce bits (short ones: all bits)
        if len(aad) and (len(aad) <= 16 or not q):
            ab = range(8 * len(aad)) if len(aad) <= 16 else range(0, 8 * len(aad), 37)
            opens("aad_bit", key_, ts, [(nonce, flip(aad, b), ct) for b in ab])
        if len(nonce) <= 16:
            opens("nonce_bit", key_, ts, [(flip(nonce, b), aad, ct) for b in range(0, 8 * len(nonce), 1 if not q else 5)])
        # differences that CANCEL under a wrong accumulation of the comparison (sum, xor or last-only
        # instead of OR): two 8-byte halves whose differences add up to 0 mod 2^64 (either byte order)
        # or are equal; two bytes whose differences add up to 0 mod 256 or are equal
        def xor_at(buf, off, val, n, order):
            o = list(buf)
            for i, bv in enumerate(val.to_bytes(n, order)):
                o[off + i] ^= bv
            return o
        canc = []
        if ts >= 16:
            for order in ("little", "big"):
                for d0 in (1, 1 << 63, rng.getrandbits(64) | 1, (1 << 64) - 1):
                    d1 = (-d0) % (1 << 64)
                    canc.append(xor_at(xor_at(ct, L, d0, 8, order), L + 8, d1, 8, order))      # sum cancels
                    canc.append(xor_at(xor_at(ct, L, d0, 8, order), L + 8, d0, 8, order))      # xor cancels
        for (i, j) in ((0, 1), (0, ts - 1), (7, 8), (8, ts - 1), (ts - 2, ts - 1)):
            for d0 in (1, 128, rng.randrange(1, 256)):
                t1 = list(ct); t1[L + i] ^= d0; t1[L + j] ^= (256 - d0) % 256
                t2 = list(ct); t2[L + i] ^= d0; t2[L + j] ^= d0
                canc += [t1, t2]
        t3 = list(ct); t3[L + ts - 1] ^= 0x55                                                  # only the last byte
        t4 = list(ct); t4[L] ^= 0x55                                                           # only the first byte
        canc += [t3, t4]
        opens("tag_cancelling_differences", key_, ts, [(nonce, aad, c_) for c_ in canc if c_ != ct])
        # aad appended/removed, truncation and extension of the ciphertext
        opens("aad_len", key_, ts, [(nonce, aad + [0], ct)] + ([(nonce, aad[:-1], ct)] if aad else []))
        cuts = [(nonce, aad, ct[:len(ct) - d]) for d in range(1, ts + 2) if len(ct) - d >= 0]
        opens("truncated", key_, ts, cuts if not q else cuts[::3] + cuts[-2:])
        opens("extended", key_, ts, [(nonce, aad, ct + [0]), (nonce, aad, ct + rb(rng, 16)), (nonce, aad, [0] + ct)])
    # sessions: one AEAD object over messages of different shapes, authentic and forged interleaved; forged
    # messages that carry the (valid) tag or the whole tail of the PREVIOUS message; the authentic message again
    # after a refused one (anything an Open leaves behind must not influence the next verdict)
    same = [(it, ct) for (it, ct) in zip(items, sealed) if it[4] == 16 and len(it[1]) == 12]
    for si in range(4 if q else 60):
        pick = [rng.choice(same) for _ in range(5 if q else 8)]
        cases, prev = [], None
        for (key_, nonce, aad, pt, ts), ct in pick:
            L = len(pt)
            cases.append((nonce, aad, ct))
            if prev is not None:
                pct, pL = prev
                cases.append((nonce, aad, ct[:L] + pct[pL:]))                   # body of this, tag of the previous message
                if pL >= L:
                    cases.append((nonce, aad, pct[:L] + ct[L:]))                # body of the previous, tag of this
            cases.append((nonce, aad, flip(ct, rng.randrange(8 * len(ct)))))
            cases.append((nonce, aad, ct))
            prev = (ct, L)
        opens("session_mixed", key, 16, cases)
    # every byte string shorter than the tag is refused; tag of a larger size truncated
    for ts in (12, 13, 14, 15, 16):
        opens("shorter_than_tag", key, ts, [(rb(rng, 12), [], rb(rng, n)) for n in range(0, ts)])
    for (key_, nonce, aad, pt, ts), ct in list(zip(items, sealed))[:6]:
        if ts == 16 and len(nonce) == 12:
            for t2 in (12, 14):
                opens("tag_truncated_by_attacker", key_, t2, [(nonce, aad, ct[:len(pt) + t2])])   # valid prefix: SP 800-38D accepts a truncated tag for the shorter tag size
    return cmds


def keyfn(b):
    ev = b["ev"]
    return "%s.%s" % (ev["op"], b["why"].split(": ")[1].replace(" ", "_"))


def run(tier):
    chk = Check(PROP, tier)
    chk.model("MC_Vectors")
    chk.model("MC_GcmToy", cfg="MC_GcmToy_quick.cfg" if tier == "quick" else "MC_GcmToy.cfg", timeout=3000)
    cmds_all = gen(chk, tier)
    chk.exec_and_validate("T_GCM", cmds_all, keyfn, cost=cost, accel=True, pure_budget=12000000)
    # the arm64 Go glue transplanted onto the amd64 kernels: a sample of every class
    scs = sorted(set(c["sc"] for c in cmds_all))
    sel = set(scs[::4]) if tier == "quick" else set(scs)
    gl = [dict(c) for c in cmds_all if c["sc"] in sel]
    for c in gl:
        if c["op"] == "scenario":
            c["cls"] = "glue_" + c.get("cls", "")
    chk.exec_and_validate("T_GCM", gl, lambda b: "glue." + keyfn(b), cost=cost, accel=True, pure_budget=0, tag="glue",
                          variant="glue")
    return chk.finish(
        "model_checking",
        "sealed messages of every kernel-ladder class, tag sizes 12..16 and nonce sizes 1/12/16/129; for each: the "
        "authentic message, every tag bit, ciphertext bits (all for <= 48 bytes, chunk boundaries beyond), aad and "
        "nonce bits, aad lengthened/shortened, truncations by 1..tagSize+1, extensions, plus every length shorter than "
        "the tag, tag differences that cancel under a wrong accumulation, refused messages opened into a destination WITH "
        "room (spare capacity / in place: what is left there must not be the decryption of the body, GCM!Decrypted), mixed "
        "sessions on one AEAD object incl. the tag of the previous message; TLC recomputes the expected tag from the logged inputs and requires (plaintext, nil error) or "
        "(nil, error) accordingly",
        ["TLC; GCM.tla / SM4.tla validated by published vectors on every run",
         "forgeries are structured single modifications, not all 2^n strings"])


def replay(path):
    return generic_replay(PROP, path)
