"""C04 - SM3: every Write/Sum/Reset history yields the standard digest."""
import re
from .. import core
from ..run import Check, generic_replay

PROP = "C04"


def rb(rng, n):
    return [rng.randrange(256) for _ in range(n)]


def split(rng, data, k):
    cuts = sorted(rng.randrange(len(data) + 1) for _ in range(k - 1))
    out, prev = [], 0
    for c in cuts + [len(data)]:
        out.append(data[prev:c])
        prev = c
    return out


def mbt_histories(chk):
    """R4: every maximal history of the small model, printed by TLC (MC_HashObj_mbt.cfg)."""
    r = chk.model("MC_HashObj", cfg="MC_HashObj_mbt.cfg", workers=4)
    hs = []
    for m in re.finditer(r'<<"MBT", <<([0-9, ]*)>>>>', r["out"]):
        hs.append([int(x) for x in m.group(1).split(",") if x.strip()])
    if not hs:
        raise core.Infra("no MBT histories produced by MC_HashObj")
    return hs


def scale(rng, pos):
    """Maps a toy offset (block 4, 1-byte length field) to a real offset (block 64, 8-byte
    field) preserving the class of the fill level: 0 -> 0, 1 -> 1..54, 2 -> 55 (largest fill
    that still takes the padding in one block), 3 -> 56..63."""
    q, p = divmod(pos, 4)
    return 64 * q + [0, rng.randrange(1, 55), 55, rng.randrange(56, 64)][p]


def gen(chk, tier):
    rng = chk.rng
    cmds, sc = [], [0]

    def scenario(cls):
        sc[0] += 1
        cmds.append(dict(sc=sc[0], op="scenario", cls=cls))
        return sc[0]

    def add(k, op, **kw):
        d = dict(sc=k, op=op)
        d.update(kw)
        cmds.append(d)

    # (1) every message length, random split, Sum + one-shot
    lmax = 200 if tier == "quick" else 1100
    lens = list(range(0, lmax + 1))
    if tier == "quick":
        lens += [247, 311, 375, 439, 503, 567, 631, 640, 1015, 1079]
    for L in lens:
        data = rb(rng, L)
        k = scenario("len_mod64_%d" % (L % 64))
        add(k, "sm3.new", h="a")
        for piece in split(rng, data, rng.randrange(1, 4)):
            add(k, "sm3.write", h="a", data=piece)
        add(k, "sm3.sum", h="a", **{"in": [], "spare": 0})
        if L <= 130 or L % 7 == 0:
            add(k, "sm3.sumsm3", data=data)
    # (2) model-based histories
    hs = mbt_histories(chk)
    if tier == "quick":
        # seeded sample that still covers every (fill level before, op) transition of the model
        rng.shuffle(hs)
        need, pick = set(), []
        for h in hs:
            pos, trans = 0, set()
            for o in h:
                trans.add((pos % 4, o if o >= 100 else (min(o, 9),)))
                pos = 0 if o == 101 else (pos + o if o < 100 else pos)
            if not trans <= need or len(pick) < 60:
                if not trans <= need:
                    need |= trans
                    pick.append(h)
                elif len(pick) < 60:
                    pick.append(h)
        hs = pick
    for h in hs:
        k = scenario("mbt")
        add(k, "sm3.new", h="a")
        pos, real = 0, 0
        for o in h:
            if o == 100:
                add(k, "sm3.sum", h="a", **{"in": [], "spare": 0})
            elif o == 101:
                add(k, "sm3.reset", h="a")
                pos, real = 0, 0
            else:
                npos = pos + o
                nreal = scale(rng, npos) if o > 0 else real
                if nreal < real:
                    nreal = real
                add(k, "sm3.write", h="a", data=rb(rng, nreal - real))
                pos, real = npos, nreal
        add(k, "sm3.sum", h="a", **{"in": [], "spare": 0})
    # (3) random histories: interleaved Sum (with dst prefix / spare capacity), Reset, two objects
    nh = 40 if tier == "quick" else 1500
    for _ in range(nh):
        k = scenario("history")
        add(k, "sm3.new", h="a")
        add(k, "sm3.new", h="b")
        for _ in range(rng.randrange(2, 9)):
            h = rng.choice("ab")
            r = rng.random()
            if r < 0.55:
                n = rng.choice([0, 1, rng.randrange(0, 64), 55, 56, 63, 64, 65, rng.randrange(0, 200)])
                add(k, "sm3.write", h=h, data=rb(rng, n))
            elif r < 0.9:
                add(k, "sm3.sum", h=h, **{"in": rb(rng, rng.choice([0, 0, 3, 32])),
                                           "spare": rng.choice([0, 0, 16, 32, 40])})
            else:
                add(k, "sm3.reset", h=h)
        add(k, "sm3.sum", h="a", **{"in": [], "spare": 0})
        add(k, "sm3.sum", h="b", **{"in": [1, 2, 3], "spare": 64})
        add(k, "sm3.sizes", h="a")
    # (4) lengths that cannot be reached by hashing: the object is placed (verif hook) just below
    # 2^29, 2^30 and 2^31 bytes (bit length crossing 2^32, 2^33, 2^34) and continued from there
    for base in (536870912, 1073741824, 2147483647 - 300, 16777216, 268435456):
        for delta in (-70, -1, 0, 1):
            start = base + delta
            nx = rng.choice([0, 3, 55, 56, 63])
            start -= start % 64
            start += nx
            k = scenario("huge_length")
            add(k, "sm3.new", h="a")
            add(k, "sm3.inject", h="a", v=[rng.randrange(65536) for _ in range(16)], x=rb(rng, nx), len=start)
            add(k, "sm3.sum", h="a", **{"in": [], "spare": 0})
            add(k, "sm3.write", h="a", data=rb(rng, rng.choice([1, 9, 64, 130])))
            add(k, "sm3.sum", h="a", **{"in": [], "spare": 0})
    return cmds


def keyfn(b):
    ev, why = b["ev"], b["why"]
    if why.startswith("write: return"):
        return "sm3.write.return_values"
    if why.startswith("sum: digest"):
        return "sm3.sum.digest.len_mod64_%d" % (ev["st_len"] % 64)
    if why.startswith("sumsm3"):
        return "sm3.sumsm3.digest.len_mod64_%d" % (len(ev["data"]) % 64)
    return "sm3." + why.replace(": ", ".").replace(" ", "_")


def cost(g):
    return sum(80 + len(e.get("data", [])) * (3 if e["op"] != "sm3.sum" else 1) + e.get("st_len", 0)
               for e in g)


def first_use(chk):
    """each entry point as the FIRST use of package sm3 in a fresh process (a table or constant that is built lazily by
    one entry point must not be missing for another)"""
    from ..sm2gen import Gen, rb
    g = Gen(chk.rng)
    d = rb(chk.rng, 70)
    g.one("first_use_sumsm3", "sm3.sumsm3", data=d)
    k = g.scenario("first_use_new_write_sum")
    g.add(k, "sm3.new", h="a")
    g.add(k, "sm3.write", h="a", data=d)
    g.add(k, "sm3.sum", h="a", **{"in": [], "spare": 0})
    k = g.scenario("first_use_sumsm3_then_object")
    g.add(k, "sm3.sumsm3", data=d[:5])
    g.add(k, "sm3.new", h="a")
    g.add(k, "sm3.write", h="a", data=d)
    g.add(k, "sm3.sum", h="a", **{"in": [], "spare": 0})
    g.one("first_use_sumsm3_empty", "sm3.sumsm3", data=[])
    chk.exec_and_validate("T_SM3", g.cmds, lambda b: "first_use." + b["ev"]["op"] + "." + b["why"].split(": ")[-1].replace(" ", "_"),
                          tag="first", fresh=True)


def run(tier):
    chk = Check(PROP, tier)
    chk.model("MC_Vectors")
    chk.model("MC_HashObj")
    # fill level / compression count / minimal padding for EVERY length and history (Apalache, inductive),
    # at the production (64, 8) and the toy (4, 1) block and length-field sizes
    first_use(chk)
    chk.inductive("HashLen", cinit="CInit64")
    chk.inductive("HashLen", cinit="CInit4")
    if tier == "thorough":
        chk.proof("HashLenProof")       # Euclid form of the invariant for EVERY block size (TLAPS, 121 obligations)
    cmds = gen(chk, tier)
    chk.exec_and_validate("T_SM3", cmds, keyfn, cost=cost)
    return chk.finish(
        "model_checking",
        "scenarios = every message length 0..N with a random split, every maximal history of the "
        "small model MC_HashObj scaled to 64-byte blocks (fill-level classes 0 / 1..54 / 55 / 56..63), "
        "seeded random histories on two objects with Sum(in, spare capacity) and Reset; non-trivial = "
        "scenario class other than 'generic' (all are classed); every Sum is recomputed by the pure "
        "TLA+ SM3 and every state projection by the HashObj machine",
        ["TLC and the TLA+ SM3 text (checked against the two GB/T 32905 vectors on every run)",
         "the verif-tag state projection sm3.VerifState reports the object's fields faithfully",
         "lengths bounded by %s" % ("200 (+10 longer)" if tier == "quick" else "1100")])


def replay(path):
    return generic_replay(PROP, path)
