"""C13 - SM2: identity and message are bound into the digest as the standard says."""
from .. import core, sm2gen, ecpy as ec
from ..sm2gen import Gen, rb, b32, N, rscalar
from ..run import Check, generic_replay

PROP = "C13"


def gen(chk, tier):
    rng = chk.rng
    g = Gen(rng)
    q = tier == "quick"
    d = rscalar(rng)
    pt = ec.mul(d)
    px, py = b32(pt[0]), b32(pt[1])
    # ZA: id lengths 0..200 (every residue of the preimage length mod 64), around 8000, the ENTL limit
    idl = list(range(0, 70 if q else 601)) + [100, 117, 181]
    idl += [8000 + r for r in (range(0, 64, 7) if q else range(64))]
    idl += [8189, 8190, 8191, 8192, 8193, 8200, 10000] + ([] if q else [16384, 20000])
    for L in idl:
        g.one("za_idlen_%s" % ("lt8192" if L < 8192 else "ge8192"), "sm2.za", id=rb(rng, L), pubx=px, puby=py)
    # inputs carved from ONE buffer (a parsed record id || xA || yA ...): spare capacity behind the id
    for L in (0, 1, 16, 53, 54, 100):
        g.one("za_packed_record", "sm2.za", id=rb(rng, L), pubx=px, puby=py, packed=True)
    for _ in range(3 if q else 50):
        p2 = ec.mul(rscalar(rng))
        g.one("za_pubkeys", "sm2.za", id=rb(rng, 16), pubx=b32(p2[0]), puby=b32(p2[1]))
    # id- and za-level signing and verification = digest level on e = SM3(ZA || M):
    # message lengths over every residue mod 64 (ZA || M crosses the padding boundaries)
    msgl = list(range(0, 66 if q else 451)) + [119, 120, 1000]
    # around plausible internal buffer sizes (a staging buffer of T bytes holds ZA plus T - 32 bytes of message)
    for T in ((256, 512, 1024, 1536, 2048, 4096) if q else (128, 256, 384, 512, 768, 1024, 1280, 1536, 2048, 3072, 4096, 8192)):
        msgl += list(range(T - 35, T + 2)) if not q else [T - 34, T - 33, T - 32, T - 31, T - 17, T - 1, T, T + 1]
    if not q:
        msgl += list(range(1400, 1700, 3))
    for L in msgl:
        for kind in (("id", "za") if (not q or L % 3 == 0 or L >= 200) else ("id",)):
            kw = dict(kind=kind, priv=b32(d), msg=rb(rng, L), script=sm2gen.script_of([rscalar(rng), rscalar(rng)]))
            if kind == "id":
                kw["id"] = rb(rng, rng.choice([16, 16, 0, 53, 54]))
            else:
                kw["za"] = rb(rng, 32)
            g.one("wrappers_msglen_mod64_%d" % (L % 64), "sm2.signverify", **kw)
            if L % 16 == 5:      # the same through the separate entry points with packed (record / packet) buffers
                kw2 = dict(kw, packed=True)
                if kind == "id":
                    kw2.update(pubx=px, puby=py)
                g.one("wrappers_packed_" + kind, "sm2.sign", **kw2)
    # too-long id through the wrappers
    big = rb(rng, 8192)
    g.one("wrappers_id_too_long", "sm2.sign", kind="id", id=big, pubx=px, puby=py, priv=b32(d), msg=[1, 2, 3],
          script=sm2gen.script_of([rscalar(rng)]))
    g.one("wrappers_id_too_long", "sm2.verify", kind="id", id=big, pubx=px, puby=py, msg=[1, 2, 3], r=b32(1), s=b32(1))
    # ids of 2^29 bytes and more (carried as a count of zero bytes): a bit length computed in 32 bits wraps there, and a
    # byte length taken modulo 2^32 would look like a short id again; all must be refused by ZA, Sign and Verify
    for nz in ([1 << 29] if q else [1 << 29, (1 << 29) + 16, (1 << 30) + 100]):
        g.one("id_len_32bit", "sm2.za", id=[], id_zeros=nz, pubx=px, puby=py)
        g.one("id_len_32bit", "sm2.sign", kind="id", id=[], id_zeros=nz, pubx=px, puby=py, priv=b32(d), msg=[1, 2, 3],
              script=sm2gen.script_of([rscalar(rng)]))
        g.one("id_len_32bit", "sm2.verify", kind="id", id=[], id_zeros=nz, pubx=px, puby=py, msg=[1, 2, 3], r=b32(1), s=b32(1))
    # rejected candidates through the wrappers
    g.one("wrappers_rejections", "sm2.sign", kind="za", za=rb(rng, 32), msg=rb(rng, 10), priv=b32(d),
          script=sm2gen.script_of([0, N, rscalar(rng), rscalar(rng)]))
    chk.extra["openssl_signatures"] = openssl_cases(chk, g, 6 if q else 200)
    return g.cmds


def openssl_cases(chk, g, n):
    """signatures made by the installed OpenSSL (another GM/T 0003 implementation): inputs for
    Verify, and at the same time a validation of SM2.tla / ZA (the spec must accept them)"""
    import subprocess, shutil, os, re
    if not shutil.which("openssl"):
        chk.notes.append("openssl not installed: cross-implementation signatures skipped")
        return 0
    rng = chk.rng
    d = os.path.join(chk.rd, "ossl")
    os.makedirs(d, exist_ok=True)
    made = 0
    for i in range(n):
        key = os.path.join(d, "k%d.pem" % i)
        if subprocess.run(["openssl", "ecparam", "-name", "SM2", "-genkey", "-noout", "-out", key], capture_output=True).returncode:
            break
        txt = subprocess.run(["openssl", "ec", "-in", key, "-text", "-noout"], capture_output=True, text=True).stdout
        m = re.search(r"pub:\s*((?:[0-9a-f]{2}:?\s*)+)", txt)
        if not m:
            break
        pub = bytes.fromhex(re.sub(r"[^0-9a-f]", "", m.group(1)))
        if len(pub) != 65 or pub[0] != 4:
            break
        idb = bytes(rb(rng, rng.choice([16, 1, 53, 100])))
        msg = bytes(rb(rng, rng.choice([0, 5, 23, 24, 64, 200])))
        mf, sf = os.path.join(d, "m%d" % i), os.path.join(d, "s%d" % i)
        open(mf, "wb").write(msg)
        p = subprocess.run(["openssl", "pkeyutl", "-sign", "-in", mf, "-inkey", key, "-rawin", "-digest", "sm3",
                            "-pkeyopt", "hexdistid:" + idb.hex(), "-out", sf], capture_output=True)
        if p.returncode:
            break
        der = open(sf, "rb").read()
        # SEQUENCE { INTEGER r, INTEGER s }
        assert der[0] == 0x30
        pos = 2 if der[1] < 0x80 else 2 + (der[1] & 0x7f)
        vals = []
        for _ in range(2):
            assert der[pos] == 2
            ln = der[pos + 1]
            vals.append(int.from_bytes(der[pos + 2:pos + 2 + ln], "big"))
            pos += 2 + ln
        g.one("openssl_signature", "sm2.verify", kind="id", id=list(idb), msg=list(msg), pubx=list(pub[1:33]),
              puby=list(pub[33:]), r=b32(vals[0]), s=b32(vals[1]), other_impl="openssl")
        # and a one-bit corruption of the message
        if msg:
            bad = bytearray(msg); bad[0] ^= 1
            g.one("openssl_signature_wrong_msg", "sm2.verify", kind="id", id=list(idb), msg=list(bad), pubx=list(pub[1:33]),
                  puby=list(pub[33:]), r=b32(vals[0]), s=b32(vals[1]))
        made += 1
    if made < n:
        chk.notes.append("openssl produced only %d of %d signatures" % (made, n))
    return made


def keyfn(b):
    ev, why = b["ev"], b["why"]
    k = why.replace(": ", ".").replace(" ", "_").replace("(", "").replace(")", "").replace(",", "")
    if ev["op"] == "sm2.za":
        L = len(ev.get("id", []))
        if "limit" in why:
            k += ".idlen_%d" % L if L <= 8192 else ".idlen_gt8192"
        else:
            k += ".preimage_mod64_%d" % ((2 + L + 192) % 64)
    elif ev["op"] == "sm2.signverify" and ev.get("kind") in ("id", "za"):
        k += ".msglen_mod64_%d" % (len(ev.get("msg", [])) % 64)
    return k


def cost(gp):
    return sum(500 + len(e.get("id", [])) + len(e.get("msg", [])) for e in gp)


def run(tier):
    chk = Check(PROP, tier)
    chk.model("MC_Vectors")
    cmds_ = gen(chk, tier)
    chk.exec_and_validate("T_SM2", cmds_, keyfn, accel=True, families=("bits", "big"), cost=cost)
    chk.first_use("T_SM2", cmds_, keyfn, accel=True, families=("bits", "big"))
    if any(b["key"].startswith("specval") for b in chk.bad):
        raise core.Infra("the specification disagrees with OpenSSL on a signature OpenSSL produced: suspect SM2.tla / ZA first")
    return chk.finish(
        "model_checking",
        "ZA for id lengths 0..N (every residue of the preimage mod 64), around 8000 and across the 16-bit ENTL limit "
        "(8189..8193, 10000); id- and za-level sign+verify round trips for message lengths over every residue mod 64 "
        "with a replayable nonce stream (each round trip verifies twice on the same buffers and compares every input "
        "buffer before/after), packed record layouts; too-long ids through the wrappers; TLC recomputes ZA = SM3(ENTL||id||a||b||Gx||"
        "Gy||xA||yA), e = SM3(ZA||M) with the TLA+ SM3 and the signature with module SM2, i.e. an oracle independent of "
        "the repository's SM3",
        ["TLC; SM3.tla (standard vectors), SM2.tla (toy-curve model), accelerators compared with definitions every run",
         "signatures produced by the installed OpenSSL (when present) are fed to Verify and must be accepted by the "
         "specification itself (spec validation); a disagreement there is exit 2, not a violation"])


def replay(path):
    return generic_replay(PROP, path)
