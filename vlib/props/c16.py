"""C16 - Field arithmetic mod p and mod n agrees with the integers."""
from .. import core, extract
from ..sm2gen import Gen, rb, b32, N, P, limb_structured
from ..run import Check, generic_replay

PROP = "C16"
T256 = 1 << 256


def limb_values():
    base = [0, 1, (1 << 32) - 1, 1 << 32, 1 << 63, (1 << 64) - 1]
    for m in (P, N):
        base += [(m >> (64 * i)) & ((1 << 64) - 1) for i in range(4)]
    return sorted(set(base))


def critical_elements(rng, m, count):
    """canonical residues whose four 64-bit limbs are carry-critical patterns"""
    lv = limb_values()
    out = {0, 1, 2, m - 1, m - 2, (m - 1) // 2, (m + 1) // 2, T256 - m, (T256 - m) - 1, (T256 - m) + 1, T256 % m}
    tries = 0
    while len(out) < count and tries < 100000:
        tries += 1
        v = 0
        for i in range(4):
            v |= rng.choice(lv) << (64 * i)
        if v < m:
            out.add(v)
    return sorted(out)


def gen(chk, tier):
    rng = chk.rng
    g = Gen(rng)
    q = tier == "quick"
    for field, m in (("p", P), ("n", N)):
        elems = critical_elements(rng, m, 60 if q else 400)
        unary = ["square", "invert", "set", "one", "opp"] + (["divstepinvert"] if field == "p" else [])
        for a in elems if not q else elems[:40]:
            for fn in unary:
                g.one("%s_%s" % (field, fn), "fiat.op", field=field, fn=fn, a=b32(a),
                      alias="none" if "invert" in fn else rng.choice(["none", "ra"]))
        pairs = []
        if q:
            for _ in range(250):
                pairs.append((rng.choice(elems), rng.choice(elems)))
        else:
            sub = elems[:150]
            pairs = [(a, b) for a in sub for b in sub if (a + b) % 7 == 0 or a == b or a + b == m]
        pairs += [(rng.randrange(m), rng.randrange(m)) for _ in range(60 if q else 40000)]
        pairs += [(a, m - a) for a in elems[1:12]] + [(a, a) for a in elems[:12]]
        # word-structured operands (limbs of 64/32/16/8 bits with zero halves, single bits, ...)
        st = [v % m for v in limb_structured(rng, 30 if q else 2000)]
        pairs += [(rng.choice(st), rng.choice(st + elems)) for _ in range(40 if q else 10000)]
        for v in limb_structured(rng, 10 if q else 200, maxbits=224):
            g.one("%s_setbytes_ge_m" % field, "fiat.setbytes", field=field, v=b32(m - 1 + v), recv=b32(rng.randrange(m)))
            g.one("%s_setbytes_lt_m" % field, "fiat.setbytes", field=field, v=b32(v % m), recv=b32(rng.randrange(m)))
        for (a, b) in pairs:
            for fn in ("add", "sub", "mul"):
                alias = rng.choice(["none", "none", "ra", "rb"]) if a != b else rng.choice(["none", "rab", "ab"])
                g.one("%s_%s" % (field, fn), "fiat.op", field=field, fn=fn, a=b32(a), b=b32(b), alias=alias)
            g.one("%s_select" % field, "fiat.op", field=field, fn="select", a=b32(a), b=b32(b), cond=rng.randrange(2),
                  alias=rng.choice(["none", "ra", "rb"]) if a != b else "none")
            if rng.random() < 0.15:         # both conditions with the receiver aliasing the FIRST and the SECOND operand
                for cond in (0, 1):
                    for al in ("ra", "rb"):
                        g.one("%s_select_aliased" % field, "fiat.op", field=field, fn="select", a=b32(a), b=b32(b), cond=cond, alias=al)
            if rng.random() < 0.3:
                g.one("%s_pred" % field, "fiat.pred", field=field, a=b32(a), b=b32(rng.choice([a, b])))
        # operands chosen by their INTERNAL (Montgomery-domain) limbs: the generated code adds / subtracts / multiplies
        # raw limbs, so the carry- and borrow-critical patterns must sit there (raw = value * 2^256 mod m).  Pairs
        # with equal low limbs, raw_a < raw_b, raw sums at 2^64k - 1, and critical patterns against each other.
        Rm = T256 % m
        Rinv_ = pow(Rm, -1, m)
        raws = [v for v in critical_elements(rng, m, 60 if q else 300) if v < m]
        rpairs = []
        for _ in range(60 if q else 12000):
            ra, rb_ = rng.choice(raws), rng.choice(raws)
            rpairs.append((ra, rb_))
        for _ in range(40 if q else 5000):           # equal low limbs (1..3 of them), any order
            j = rng.randrange(1, 4)
            low = rng.choice([0, 1, (1 << (64 * j)) - 1, rng.getrandbits(64 * j)])
            ra = ((rng.getrandbits(256 - 64 * j) << (64 * j)) | low) % m
            rb_ = ((rng.getrandbits(256 - 64 * j) << (64 * j)) | low) % m
            rpairs.append((ra, rb_))
            # raw sums whose low limbs are all ones / exactly 2^64j
            rc = (((1 << (64 * j)) - 1 - ra) % (1 << (64 * j))) | (rng.getrandbits(256 - 64 * j) << (64 * j))
            rpairs.append((ra, rc % m))
        rpairs += [(0, 1 << 64), (1 << 64, 0), (0, 1 << 128), (1 << 64, 1 << 128), (m - 1, 1), (1, m - 1), (0, m - 1)]
        for (ra, rb_) in rpairs:
            a, b = ra * Rinv_ % m, rb_ * Rinv_ % m
            for fn in ("add", "sub", "mul"):
                g.one("%s_%s_raw_limbs" % (field, fn), "fiat.op", field=field, fn=fn, a=b32(a), b=b32(b),
                      alias=rng.choice(["none", "none", "ra", "rb"]) if a != b else "none")
        for ra in raws[:40 if q else 300]:
            a = ra * Rinv_ % m
            for fn in ("square", "opp"):
                g.one("%s_%s_raw_limbs" % (field, fn), "fiat.op", field=field, fn=fn, a=b32(a), alias="none")
        # operands constructed so that the MONTGOMERY-domain result is small (< 2^256 - m): the
        # accumulator before the final conditional subtraction is then either c or c + m, i.e. the
        # subtraction decision is at its boundary (about half of these take each side)
        R = T256 % m
        Rinv = pow(R, -1, m)
        for _ in range(40 if q else 600):
            cm = rng.randrange(0, T256 - m) if rng.random() < 0.8 else rng.choice([0, 1, T256 - m - 1])
            xm = rng.randrange(1, m)
            ym = cm * R % m * pow(xm, -1, m) % m          # xm * ym / R = cm  (mod m)
            a, b = xm * Rinv % m, ym * Rinv % m
            g.one("%s_mul_small_montgomery_result" % field, "fiat.op", field=field, fn="mul", a=b32(a), b=b32(b), alias="none")
            # square: need a root of cm * R
            t = cm * R % m
            if pow(t, (m - 1) // 2, m) in (0, 1):
                rt = pow(t, (m + 1) // 4, m) if m % 4 == 3 else None
                if rt is not None and rt * rt % m == t:
                    for root in (rt, m - rt):
                        g.one("%s_square_small_montgomery_result" % field, "fiat.op", field=field, fn="square",
                              a=b32(root * Rinv % m), alias="none")
            # add / sub with a small Montgomery-domain result
            g.one("%s_add_small_montgomery_result" % field, "fiat.op", field=field, fn="add", a=b32(xm * Rinv % m),
                  b=b32((cm - xm) % m * Rinv % m), alias="none")
            g.one("%s_sub_small_montgomery_result" % field, "fiat.op", field=field, fn="sub", a=b32(xm * Rinv % m),
                  b=b32((xm - cm) % m * Rinv % m), alias="none")
        # decoding: canonical check at the modulus
        for v in [0, 1, m - 2, m - 1, m, m + 1, m + 2, T256 - 1, (m & ~0xff), m | 0xff, m ^ (1 << 255)]:
            v %= T256
            g.one("%s_setbytes_%s" % (field, "lt_m" if v < m else "ge_m"), "fiat.setbytes", field=field, v=b32(v),
                  recv=b32(rng.randrange(m)))
        # values that agree with m on a long prefix and differ late (early-exit / borrow errors)
        mb = b32(m)
        for pos in range(32):
            for delta in (-1, 1):
                v = list(mb)
                if 0 <= v[pos] + delta <= 255:
                    v[pos] += delta
                    for j in range(pos + 1, 32):
                        v[j] = 255 if delta < 0 else 0
                    val = int.from_bytes(bytes(v), "big")
                    g.one("%s_setbytes_%s" % (field, "lt_m" if val < m else "ge_m"), "fiat.setbytes", field=field, v=v,
                          recv=b32(rng.randrange(m)))
        for L in (0, 1, 31, 33, 64):
            g.one("%s_setbytes_len" % field, "fiat.setbytes", field=field, v=rb(rng, L), recv=b32(5))
    # the generated nonzero tests on raw limbs: zero, one bit in each limb, high / low halves only
    nzv = [0, 1, 1 << 63, 1 << 64, 1 << 127, 1 << 128, 1 << 191, 1 << 192, 1 << 255, T256 - 1, ((1 << 32) - 1) << 32,
           (1 << 32) << 128] + limb_structured(rng, 10 if q else 200)
    for v in nzv:
        g.one("nonzero", "fiat.nonzero", v=b32(v))
    # MultiSelect: every index incl. 0 and out of range
    for width in (1, 15, 63):
        tab = [b32(rng.randrange(P)) for _ in range(width)]
        for bits in sorted(set([0, 1, 2, width - 1, width, width + 1, 128, 255])):
            if bits < 0:
                continue
            # contract of MultiSelect as its callers use it: fallbackCond = (bits # 0)
            g.one("multiselect", "fiat.multiselect", table=tab, bits=bits, fallback=b32(rng.randrange(P)),
                  fbcond=1 if bits else 0)
    return g.cmds


def keyfn(b):
    ev, why = b["ev"], b["why"]
    return why.replace(": ", ".").replace(" ", "_")


def run(tier):
    chk = Check(PROP, tier)
    ex = extract.write_extracted(chk)
    branchy = [(n, ex[n]["control_flow"]) for n in ("field_chain", "scalar_chain") if ex[n].get("control_flow")]
    if branchy:
        # the inversion routines are no longer straight-line addition chains: the extracted-program model does
        # not apply; the recorded executions (invert on every critical element) still judge them
        chk.notes.append("extracted-chain model skipped: control flow inside %s" % branchy)
    else:
        chk.model("MC_AddChain", workers=2)
    chk.extra["extracted_chain_instructions"] = dict(field=len(ex["field_chain"]["prog"]), scalar=len(ex["scalar_chain"]["prog"]))
    cmds_ = gen(chk, tier)
    chk.exec_and_validate("T_EC", cmds_, keyfn, accel=True, families=("bits", "big"))
    chk.first_use("T_EC", cmds_, keyfn, accel=True, families=("bits", "big"))
    return chk.finish(
        "model_checking",
        "extracted programs: TLC walks the two addition chains parsed from the current tree (go/ast) at production size and "
        "proves the exponent is exactly p-2 / n-2, no temporary read before written, counts = header; traces: add, sub, "
        "negate, mul, square, select, invert, set, one, predicates on residues whose 64-bit limbs are carry-critical "
        "patterns (0, 1, 2^32-1, 2^32, 2^63, 2^64-1, limbs of p and n) with receiver aliasing, decoding at m-1/m/m+1 and "
        "values sharing a long prefix with m, MultiSelect over every index; TLC recomputes each with BigNat",
        ["TLC; BigNat.tla is the meaning of integer arithmetic; its Java accelerator is compared with it every run",
         "operands are sampled (carry-critical + random), the limb code itself is not proved for all 2^512 pairs",
         "x.Invert(x) with receiver = argument is not exercised (no caller does it; not part of the property)"])


def replay(path):
    return generic_replay(PROP, path)
