"""C11 - Memory safety: no access outside the slices and objects handed in."""
import json, re
from .. import core
from ..run import Check, generic_replay
from ..sm2gen import Gen, rb
from . import c09

PROP = "C11"


def gen(chk, tier):
    rng = chk.rng
    g = Gen(rng)
    q = tier == "quick"
    key = rb(rng, 16)
    # public AEAD with every argument against an inaccessible page (after it, and before it)
    tl = ([0, 1, 5, 15, 16, 17, 31, 33, 47, 64, 65, 100, 129, 255, 256, 257, 300, 1099] if q else list(range(0, 1101)))
    for i, L in enumerate(tl):
        for ts in ((16, 12) if (q and i % 2 == 0) or not q else (16,)):
            for place in ("end", "start") if not q or L < 40 else ("end",):
                nonce, aad, pt = rb(rng, 12), rb(rng, rng.choice([0, 7, 20])), rb(rng, L)
                k = g.scenario("aead_text_len")
                g.add(k, "guard.aead", key=key, noncesize=12, tagsize=ts, dir="seal", nonce=nonce, aad=aad, text=pt,
                      place=place, dstmode=rng.choice(["nil", "exact"]))
                # Open needs the sealed message: produced by the same guarded Seal (value checked by TLC)
    # Open: sealed inputs come from a pre-pass on ordinary buffers
    from .c07 import seal_all
    items = []
    for L in (tl if not q else tl[::2] + [1, 2, 3]):
        for ts in (12, 13, 16):
            items.append((key, rb(rng, 12), rb(rng, rng.choice([0, 9])), rb(rng, L), ts))
    sealed = seal_all(chk, items)
    for (key_, nonce, aad, pt, ts), ct in zip(items, sealed):
        g.one("aead_open_len", "guard.aead", key=key_, noncesize=12, tagsize=ts, dir="open", nonce=nonce, aad=aad, text=ct,
              place="end", dstmode=rng.choice(["nil", "exact"]))
    for al in ([1, 15, 16, 17, 127, 128, 129, 300] if q else range(0, 1101, 3)):
        g.one("aead_aad_len", "guard.aead", key=key, noncesize=12, tagsize=16, dir="seal", nonce=rb(rng, 12),
              aad=rb(rng, al), text=rb(rng, 3), place="end", dstmode="nil")
    for nl in ([1, 8, 13, 16, 17, 127, 128, 129, 300] if q else range(1, 301)):
        if nl != 12:
            g.one("aead_nonce_len", "guard.aead", key=key, noncesize=nl, tagsize=16, dir="seal", nonce=rb(rng, nl),
                  aad=rb(rng, 2), text=rb(rng, 20), place="end", dstmode="nil")
    # kernels, key schedule, GHASH with guarded round keys / inputs / outputs
    for n in (1, 2, 4, 8, 16):
        for dec in (False, True):
            for place in ("end", "start"):
                g.one("kernel_%d" % n, "guard.kernel", n=n, key=key, dec=dec, src=rb(rng, 16 * n), place=place)
    for place in ("end", "start"):
        g.one("expandkey", "guard.expandkey", key=key, place=place)
        for blocks in (1, 2, 3, 4, 5, 8, 9, 17):
            g.one("ghash", "guard.ghash", h=rb(rng, 16), tag=rb(rng, 16), data=rb(rng, 16 * blocks), place=place)
    # Block interface: full blocks against the guard, then short-buffer misuse
    for asm in (True, False):
        for dec in (False, True):
            for place in ("end", "start"):
                g.one("block_full", "guard.block", key=key, asm=asm, dec=dec, src=rb(rng, 16), dstlen=16, place=place)
            for (sl, dl) in ((15, 16), (8, 16), (0, 16), (16, 15), (16, 8), (16, 0), (1, 1)):
                g.one("block_short_guarded", "guard.block", key=key, asm=asm, dec=dec, src=rb(rng, sl), dstlen=dl, place="end")
                g.one("block_short_heap", "guard.heapblock", key=key, asm=asm, dec=dec, src=rb(rng, sl), dstlen=dl)
    # the hash and the comparison helper are plain Go today; their buffers are laid against the guard as well (a
    # zero-copy or word-wise rewrite that reads past the end of the data would otherwise land in allocator slack)
    for L in ([0, 1, 3, 55, 56, 63, 64, 65, 119, 128, 200] if q else range(0, 260)):
        for place in ("end", "start") if (not q or L in (1, 64, 65)) else ("end",):
            g.one("sm3_guarded", "guard.sm3", data=rb(rng, L), splits=rng.choice([[], [1], [L // 2], [3, 64], [63, 1, 1]]),
                  place=place, inlen=rng.choice([0, 5]))
    for L in ([1, 7, 8, 9, 16, 31, 32, 33] if q else range(1, 70)):
        a = rb(rng, L)
        for b_ in (list(a), a[:-1] + [a[-1] ^ 1], [a[0] ^ 0x80] + a[1:]):
            g.one("cmp_guarded", "guard.cmp", a=a, b=b_, place=rng.choice(["end", "start"]))
    return g.cmds


def keyfn(b):
    ev = b["ev"]
    why = re.sub(r"[^A-Za-z0-9]+", "_", b["why"]).strip("_")
    extra = ""
    if ev["op"] in ("guard.block", "guard.heapblock"):
        if len(ev.get("src", [])) < 16 or ev.get("dstlen", 16) < 16:
            return "block.short_buffer_not_rejected.%s" % ("asm" if ev.get("asm") else "portable")
        extra = ".%s" % ("asm" if ev.get("asm") else "portable")
    elif ev["op"] == "guard.aead":
        extra = ".%s.tail%s" % (ev["dir"], "0" if (len(ev["text"]) - (ev["tagsize"] if ev["dir"] == "open" else 0)) % 16 == 0 else "N")
    elif ev["op"] == "guard.kernel":
        extra = ".x%d%s" % (ev["n"], ".dec" if ev.get("dec") else "")
    return "%s.%s%s" % (ev["op"], why, extra)


def strip(msg):
    m = re.match(r"C1[01] (out-of-bounds \w+ of \w+|[^(\[]+)", msg)
    return re.sub(r"[^A-Za-z0-9]+", "_", (m.group(1) if m else msg)).strip("_")


def run(tier):
    chk = Check(PROP, tier)
    chk.model("MC_Vectors")
    # static half: symbolic placement, every access of every routine inside its region
    # If the abstract machine cannot interpret the current assembly (an opcode or operand form in no table, a mask
    # value it does not compute) that is not a verdict: the guard-page executions below still decide; only when
    # they find nothing is the run inconclusive (exit 2).
    deferred = None
    try:
        found = c09.analyse(chk, tier, ("C11",))
        c09.report(chk, found, strip)
    except core.Infra as e:
        deferred = e
        chk.notes.append("static half not completed: %s" % str(e)[:300])
    # dynamic half: guard pages
    cmds = gen(chk, tier)
    chk.exec_and_validate("T_Guard", cmds, keyfn, accel=True, pure_budget=0)
    # the arm64 Go glue transplanted onto the amd64 kernels (vlib/glue.py): its pointer/count arguments to the
    # kernels are not bounds-checked by Go, so the same guarded AEAD scenarios are run through it
    gl = [dict(c) for c in cmds if c.get("op") in ("scenario", "guard.aead")]
    for c in gl:
        if c.get("op") == "scenario":
            c["cls"] = "glue_" + c.get("cls", "")
    chk.exec_and_validate("T_Guard", gl, lambda b: "glue." + keyfn(b), accel=True, pure_budget=0, tag="glue",
                          variant="glue")
    if deferred is not None and not chk.bad:
        raise deferred
    return chk.finish(
        "model_checking",
        "static: the TLA+ abstract machine executes every extracted amd64 routine for each length vector with pointers "
        "as (region, offset), so every access is checked against the region size independent of placement and "
        "alignment (round keys 128 bytes, scratch 32 bytes, RODATA symbols at their GLOBL sizes, masked loads by their "
        "public mask); dynamic: the public AEAD / Block methods and the exported kernels run with every buffer ending "
        "at, and beginning after, a PROT_NONE page for text lengths in the tier's range, aad and nonce lengths, tag "
        "sizes 12/13/16; results are validated by TLC and any fault is an out-of-range access; Encrypt/Decrypt with "
        "short src or dst must panic without touching memory beyond the slice",
        ["TLC; AsmMachine.tla + vlib/asmx.py classification (fail closed); mmap/mprotect guard placement in the executor",
         "debug.SetPanicOnFault turns faults in assembly into recoverable panics (measured in this sandbox)",
         "arm64: static half for the twelve TEXT symbols (nothing arm64 can be executed here); its Go glue "
         "(sm4_gcm_arm64.go) runs the guarded AEAD scenarios transplanted onto the amd64 kernels"])


def replay(path):
    obj = json.load(open(path))
    if obj.get("extra", {}).get("kind") == "asm-abstract-machine":
        print("replay: finding of the abstract machine on the extracted listing: %s" % obj["extra"].get("message"))
        return run("quick")
    return generic_replay(PROP, path)
