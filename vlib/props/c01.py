"""C01 - SM2: every signature the library produces verifies, without panicking."""
from .. import core, sm2gen
from ..sm2gen import Gen, rb, b32, N, rscalar
from ..run import Check, generic_replay

PROP = "C01"


def gen(chk, tier):
    rng = chk.rng
    g = Gen(rng)
    q = tier == "quick"
    # signatures whose r, s or t = (r+s) mod n has leading zero bytes (the verifier consumes
    # t as a byte string), solved for directly
    for which in ("r", "s", "t"):
        # up to 31 leading zero bytes: tiny r, s and t (a tiny t exercises the first iterations of the
        # interleaved comb/NAF loop of the double-scalar multiplication)
        for nz in ((1, 2, 8, 16, 24, 29, 30, 31) if q else (1, 2, 3, 5, 8, 12, 16, 20, 24, 28, 29, 30, 31)):
            for _ in range(2 if q else 12):
                d = rscalar(rng)
                k, e = sm2gen.leading_zero_case(rng, d, which, nz)
                g.one("leading_zero_%s_%d" % (which, nz), "sm2.signverify", kind="hashed", priv=b32(d), e=b32(e),
                      script=sm2gen.script_of([k]))
    # all three entry-point pairs, boundary keys, short key encodings, random streams
    keys = [1, 2, 3, N - 2, N - 3] + [rscalar(rng) for _ in range(6 if q else 200)]
    for i, d in enumerate(keys):
        for kind in ("hashed", "za", "id"):
            kw = dict(kind=kind, priv=b32(d), script=sm2gen.script_of([rscalar(rng), rscalar(rng)]))
            if kind == "hashed":
                kw["e"] = b32(rng.choice([0, N, (1 << 256) - 1, rng.getrandbits(256)]))
            elif kind == "za":
                kw["za"], kw["msg"] = rb(rng, 32), rb(rng, rng.randrange(0, 100))
            else:
                kw["id"], kw["msg"] = rb(rng, rng.choice([0, 16, 53, 54, 117])), rb(rng, rng.choice([0, 14, 23, 24, 87, 88]))
            g.one("pair_" + kind, "sm2.signverify", **kw)
    # word-structured keys and nonces (limbs with zero halves, carry chains: low limbs all ones, ...), full width and
    # as the short encodings the signer accepts (e.g. sixteen 0xFF bytes)
    from ..sm2gen import limb_structured
    st = [v % (N - 2) + 1 for v in limb_structured(rng, 30 if q else 600)]
    st += [(1 << (8 * L)) - 1 for L in (8, 16, 24, 31)] + [((1 << 128) - 1) | (rng.getrandbits(100) << 150), (1 << 64) - 1,
                                                            ((1 << 192) - 1) | (rng.getrandbits(30) << 200)]
    for d in st:
        enc = b32(d) if rng.random() < 0.6 or d >= 1 << 248 else list(d.to_bytes(max(1, (d.bit_length() + 7) // 8), "big"))
        kk = rng.choice(st) if rng.random() < 0.3 else rscalar(rng)
        g.one("structured_key", "sm2.signverify", kind="hashed", priv=enc, e=rb(rng, 32),
              script=sm2gen.script_of([kk, rscalar(rng)]))
    # the caller refills ONE buffer per argument in place between calls (ids / messages / digests of equal length):
    # a signer that remembers a slice instead of its contents signs with stale data
    for kind in ("id", "za", "hashed"):
        for _ in range(2 if q else 20):
            k = g.scenario("buffers_refilled_in_place_" + kind)
            d = rscalar(rng)
            for j in range(4):
                kw = dict(kind=kind, priv=b32(d), script=sm2gen.script_of([rscalar(rng), rscalar(rng)]), reuse=True)
                if kind == "hashed":
                    kw["e"] = rb(rng, 32)
                elif kind == "za":
                    kw["za"], kw["msg"] = rb(rng, 32), rb(rng, 20)
                else:
                    kw["id"], kw["msg"] = rb(rng, 16), rb(rng, 20)
                g.add(k, "sm2.signverify", **kw)
                if j == 1:
                    d = rscalar(rng)         # and another key half way
    for L in (1, 8, 31):
        v = rng.getrandbits(8 * L) | 1
        g.one("short_key", "sm2.signverify", kind="hashed", priv=list(v.to_bytes(L, "big")), e=rb(rng, 32),
              script=sm2gen.script_of([rscalar(rng)]))
    # rejected candidates first (the signature still has to verify)
    for _ in range(3 if q else 30):
        d = rscalar(rng)
        g.one("after_rejections", "sm2.signverify", kind="hashed", priv=b32(d), e=rb(rng, 32),
              script=sm2gen.script_of([0, N, (1 << 256) - 1, rscalar(rng)]))
    for _ in range(150 if q else 20000):
        g.one("random", "sm2.signverify", kind="hashed", priv=b32(rscalar(rng)), e=rb(rng, 32),
              script=sm2gen.script_of([rscalar(rng)]))
    return g.cmds


def keyfn(b):
    ev, why = b["ev"], b["why"]
    k = why.replace(": ", ".").replace(" ", "_")
    if "panic" in why or "rejected" in why:
        # classify by the leading zero bytes of t = (r + s) mod n, r and s
        r = int.from_bytes(bytes(ev.get("r", [])), "big")
        s = int.from_bytes(bytes(ev.get("s", [])), "big")
        t = (r + s) % N
        short = [n for n, v in (("t", t), ("r", r), ("s", s)) if v < (1 << 248)]
        k += (".short_t" if "t" in short else ".short_" + "".join(short)) if short else ".full_width"
    return k


def run(tier):
    chk = Check(PROP, tier)
    chk.model("MC_SM2Toy", cfg="MC_SM2Toy.cfg" if tier == "thorough" else "MC_SM2Toy_quick.cfg")
    cmds_ = gen(chk, tier)
    chk.exec_and_validate("T_SM2", cmds_, keyfn, accel=True, families=("bits", "big"))
    chk.first_use("T_SM2", cmds_, keyfn, accel=True, families=("bits", "big"))
    return chk.finish(
        "model_checking",
        "derive-sign-verify round trips through all three entry-point pairs: signatures solved so that r, s or "
        "(r+s) mod n has 1..8 leading zero bytes, boundary and short keys, streams starting with rejected candidates, "
        "ids/messages at SM3 padding boundaries, seeded random; TLC checks the public key, the signature value "
        "(module SM2) and that the verifier accepted, no panic anywhere",
        ["TLC; SM2.tla model-checked on a toy curve: every produced signature verifies for ALL (d, e, k)",
         "BigNat/EC accelerators compared with the TLA+ definitions on every run",
         "256-bit inputs are sampled outside the solved classes"])


def replay(path):
    return generic_replay(PROP, path)
