"""C09 - SM4/GCM assembly: no key- or data-dependent branch or address."""
import json
from .. import core, asmcheck as ac
from ..run import Check

PROP = "C09"


def ladder(rng, tier):
    if tier == "quick":
        lens = [0, 1, 15, 16, 17, 31, 32, 33, 48, 63, 64, 65, 100, 127, 128, 129, 200, 255, 256, 257, 300, 511, 512, 640, 1100]
    else:
        lens = list(range(0, 1101))
    return lens


def vectors(rng, tier):
    """(text, aad, nonce, tag) length vectors: each dimension swept separately (the three loops
    are sequential), plus mixed ones"""
    v = set()
    for L in ladder(rng, tier):
        v.add((L, rng.choice([0, 13, 16]), 12, 16))
    for L in (ladder(rng, tier) if tier == "thorough" else [0, 1, 15, 16, 17, 63, 64, 65, 127, 128, 129, 255, 256, 300, 1100]):
        v.add((rng.choice([0, 17]), L, 12, 16))
    for n in (range(1, 301) if tier == "thorough" else [1, 7, 8, 11, 12, 13, 15, 16, 17, 32, 127, 128, 129, 144, 255, 300]):
        v.add((20, 5, n, 16))
    for ts in (12, 13, 14, 15, 16):
        for L in (0, 1, 3, 4, 15, 16, 33):
            v.add((L, 3, 12, ts))
    return sorted(v)


def routine_jobs(rng, tier, light=False):
    vs = vectors(rng, tier)
    if light:       # C10's static complement: the store footprint does not need the dense length sweep
        vs = vs[::4]
    jobs = [("helper_amd64.s", "needExpand", ac.ctx_needexpand([(0, 0, 0), (0, 0, 5), (3, 10, 7), (3, 10, 8), (16, 16, 1)])),
            ("helper_amd64.s", "copyAsm", ac.ctx_copy(range(0, 70) if tier == "quick" else range(0, 1101))),
            ("asm_amd64.s", "expandKeyAsm", ac.ctx_expandkey()),
            ("gcm_amd64.s", "gHashBlocks", ac.ctx_ghash(range(1, 20) if tier == "quick" else range(1, 80)))]
    for name, n in (("cryptoBlockAsm", 1), ("cryptoBlockAsmX2", 2), ("cryptoBlockAsmX4", 4), ("cryptoBlockAsmX8", 8),
                    ("cryptoBlockAsmX16", 16)):
        jobs.append(("asm_amd64.s", name, ac.ctx_kernel(n)))
    jobs.append(("gcm_amd64.s", "sealAsm", ac.ctx_gcm(vs, False)))
    jobs.append(("gcm_amd64.s", "openAsm", ac.ctx_gcm(vs, True)))
    jobs = [j + ("amd64",) for j in jobs]
    # arm64: every TEXT symbol of the two arm64 files (the GCM control flow lives in Go there)
    jobs.append(("asm_arm64.s", "expandKeyAsm", ac.ctx_expandkey(), "arm64"))
    for name, n in (("cryptoBlockAsm", 1), ("cryptoBlockAsmX2", 2), ("cryptoBlockAsmX4", 4), ("cryptoBlockAsmX8", 8)):
        jobs.append(("asm_arm64.s", name, ac.ctx_kernel(n), "arm64"))
    jobs.append(("asm_arm64.s", "cryptoBlockAsmX16Internal", ac.ctx_arm64_x16(), "arm64"))
    jobs.append(("gcm_arm64.s", "gHashBlocks", ac.ctx_ghash(range(1, 20) if tier == "quick" else range(1, 80)), "arm64"))
    for n in (16, 32, 64, 128, 256):
        jobs.append(("gcm_arm64.s", "xor%d" % n, ac.ctx_xor(n), "arm64"))
    return jobs


def analyse(chk, tier, prefixes, light=False):
    """runs every routine; returns list of (routine, ctx, message) whose message starts with one
    of `prefixes`, and raises Infra for anything the machine could not interpret"""
    found, total_ctx, paths = [], 0, 0
    for fname, rt, ctxs, arch in routine_jobs(chk.rng, tier, light):
        res, st = ac.run_routine(chk, fname, rt, ctxs, workers=8 if len(ctxs) > 8 else 2, arch=arch)
        chk.states += st["distinct"]
        chk.transitions += st["generated"]
        rt = rt if arch == "amd64" else "arm64:" + rt
        chk.models.append(dict(module="AsmMachine:" + rt, generated=st["generated"], distinct=st["distinct"],
                               wall_s=round(st["wall"], 1), instructions=st["instructions"], contexts=len(ctxs)))
        total_ctx += len(ctxs)
        paths += len(res)
        for r in res:
            for e in r["errs"]:
                if e.startswith("unsupported") or e.startswith("no return"):
                    raise core.Infra("abstract machine cannot interpret %s (%s): %s" % (rt, r["ctx"], e))
                if any(e.startswith(p) for p in prefixes):
                    found.append((rt, r["ctx"], e))
                if e.startswith("NOTE"):
                    notes = chk.extra.setdefault("asm_notes", [])
                    if len(notes) < 20 and (rt + ": " + e) not in notes:
                        notes.append(rt + ": " + e)
            if rt == "openAsm" and r["nsb"] != 1:
                found.append((rt, r["ctx"], "C09 openAsm took %d data-dependent branches (exactly one verdict branch expected)" % r["nsb"]))
        if len(chk.samples) < 4:
            r = res[-1]
            chk.samples.append(dict(routine=rt, context=r["ctx"], instructions_executed=r["steps"], findings=r["errs"],
                                    footprint={k: v for k, v in r["acc"].items() if v != (-1, 0, -1, 0)}))
    chk.extra["asm_contexts"] = total_ctx
    chk.extra["asm_paths"] = paths
    return found


def cpu_conformance(chk, tier):
    """Dynamic binding: the real routines are single-stepped under ptrace (drv asmtrace) for two
    different random data sets per length vector; the abstract machine must follow each recorded
    instruction sequence exactly (trace-following mode of AsmMachine)."""
    rng = chk.rng
    found, traces, steps = [], 0, 0
    vec = [(0, 0, 12, 16), (1, 0, 12, 12), (5, 3, 12, 16), (15, 0, 13, 13), (16, 16, 12, 16), (33, 130, 16, 12), (100, 20, 12, 16),
           (300, 0, 1, 16), (64, 129, 128, 16), (257, 17, 12, 14), (511, 0, 300, 16), (1100, 1100, 12, 16)]
    if tier == "thorough":
        vec += [(rng.randrange(0, 1101), rng.randrange(0, 1101), rng.choice([12, 12, rng.randrange(1, 301)]),
                 rng.randrange(12, 17)) for _ in range(90)]
    jobs = []
    for routine, kind in (("sealAsm", "seal"), ("openAsm", "open")):
        ctxs = []
        prog = ac.program(chk, "gcm_amd64.s", routine)
        for v in vec:
            base = ac.ctx_gcm([v], kind == "open")[0]
            for seed in (1, 2):
                tr = ac.cpu_trace(chk, routine, prog, [kind] + list(v) + [seed + 7 * core.seed()])
                ctxs.append((base[0] + ",data=%d" % seed,) + base[1:] + (tr,))
        jobs.append(("gcm_amd64.s", routine, ctxs))
    for name, n in (("cryptoBlockAsm", 1), ("cryptoBlockAsmX2", 2), ("cryptoBlockAsmX4", 4), ("cryptoBlockAsmX8", 8),
                    ("cryptoBlockAsmX16", 16)):
        prog = ac.program(chk, "asm_amd64.s", name)
        base = ac.ctx_kernel(n)[0]
        jobs.append(("asm_amd64.s", name, [(base[0] + ",data=%d" % sd,) + base[1:] + (ac.cpu_trace(chk, name, prog, ["kernel", n, sd]),)
                                             for sd in (1, 2)]))
    prog = ac.program(chk, "helper_amd64.s", "copyAsm")
    jobs.append(("helper_amd64.s", "copyAsm", [(c[0],) + c[1:] + (ac.cpu_trace(chk, "copyAsm", prog, ["copy", L, 3]),)
                                                 for L, c in ((L, ac.ctx_copy([L])[0]) for L in (0, 1, 7, 8, 13, 64, 65, 1000))]))
    for fname, rt, ctxs in jobs:
        res, st = ac.run_routine(chk, fname, rt, ctxs, workers=8 if len(ctxs) > 8 else 2)
        chk.states += st["distinct"]
        chk.transitions += st["generated"]
        for r in res:
            traces += 1
            steps += r["steps"]
            for e in r["errs"]:
                if e.startswith("C09"):
                    found.append((rt, r["ctx"], e))
    chk.extra["cpu_traces_followed"] = traces
    chk.extra["cpu_instructions_followed"] = steps
    chk.accepted += traces - len(set((f[0], f[1]) for f in found))
    return found


def report(chk, found, strip):
    bykey = {}
    for rt, ctx, msg in found:
        key = "%s.%s" % (rt, strip(msg))
        bykey.setdefault(key, []).append((ctx, msg))
    for key, lst in bykey.items():
        chk.add_failure(key, lst[0][1], dict(commands=[], routine=key.split(".")[0], contexts=[c for c, _ in lst][:20],
                                            message=lst[0][1], kind="asm-abstract-machine"))
        chk.bad[-1]["count"] = len(lst)


def pc_pairs(chk, tier, full):
    """Dynamic complement (and the fallback when the abstract machine cannot interpret the current assembly): PC
    traces of the real routines for the same lengths and different data, compared by TLC (T_Leak `pc.pair`).
    Always: refused messages whose tag is wrong in its first / 8th / 9th / last byte against each other and against
    the authentic message.  `full`: also every routine x length vector x three data sets."""
    from ..sm2gen import Gen
    g = Gen(chk.rng)

    def raw(routine, args):
        out, syms = ac.build_target(chk)
        if routine not in syms:
            raise core.Infra("symbol %s not in the target binary" % routine)
        lo, size = syms[routine]
        import subprocess, json as _j
        p = subprocess.run([chk.drv(), "asmtrace", lo, size, out] + [str(a) for a in args], capture_output=True, text=True,
                           timeout=300)
        if p.returncode != 0:
            raise core.Infra("asmtrace failed for %s %s: %s" % (routine, args, p.stderr[-300:]))
        pcs = _j.loads(p.stdout)
        base = int(lo, 16)
        return [x - base for x in pcs]

    n = 0
    for v in ((33, 5, 12, 16), (5, 0, 12, 12), (100, 20, 16, 13), (64, 3, 12, 15)):
        sd = 3 + core.seed()
        auth = raw("openAsm", ["open"] + list(v) + [sd])
        bad = [raw("openAsm", ["open"] + list(v) + [sd, fb]) for fb in (0, 7, 8, v[3] - 1)]
        for i in range(1, len(bad)):
            g.one("open_refused_pair", "pc.pair", routine="openAsm", mode="same", ta=bad[0], tb=bad[i], slack=0,
                  lens=list(v))
        g.one("open_verdict_pair", "pc.pair", routine="openAsm", mode="verdict", ta=auth, tb=bad[0], slack=12, lens=list(v))
        n += 5
    if full:
        vec = [(0, 0, 12, 16), (1, 0, 12, 12), (5, 3, 12, 16), (16, 16, 12, 16), (33, 130, 16, 12), (100, 20, 12, 16), (300, 0, 1, 16),
               (64, 129, 128, 16), (257, 17, 12, 14), (1100, 1100, 12, 16)]
        for routine, kind in (("sealAsm", "seal"), ("openAsm", "open")):
            for v in vec:
                trs = [raw(routine, [kind] + list(v) + [sd]) for sd in (1, 2, 3)]
                for t in trs[1:]:
                    g.one("data_pair", "pc.pair", routine=routine, mode="same", ta=trs[0], tb=t, slack=0, lens=list(v))
                n += 3
        for name, k in (("cryptoBlockAsm", 1), ("cryptoBlockAsmX2", 2), ("cryptoBlockAsmX4", 4), ("cryptoBlockAsmX8", 8),
                        ("cryptoBlockAsmX16", 16)):
            trs = [raw(name, ["kernel", k, sd]) for sd in (1, 2, 3)]
            for t in trs[1:]:
                g.one("data_pair", "pc.pair", routine=name, mode="same", ta=trs[0], tb=t, slack=0, lens=[k])
    # which code serves the public Block interface: Encrypt and Decrypt of the cipher NewCipher hands out must enter the
    # one-block kernel (asmtrace exits with status 5 and an empty trace when the call ended without reaching it)
    import subprocess
    out_, syms_ = ac.build_target(chk)
    if "cryptoBlockAsm" in syms_:
        lo_, size_ = syms_["cryptoBlockAsm"]
        for call in ("blockenc", "blockdec"):
            p_ = subprocess.run([chk.drv(), "asmtrace", lo_, size_, out_, call, str(3 + core.seed())], capture_output=True, text=True,
                                timeout=300)
            if p_.returncode not in (0, 5):
                raise core.Infra("asmtrace failed for %s: %s" % (call, p_.stderr[-300:]))
            g.one("block_dispatch", "pc.entered", routine="cryptoBlockAsm", call=call, mode="entered", entered=p_.returncode == 0)
    chk.exec_and_validate("T_Leak", g.cmds, lambda b: "pc.%s.%s" % (b["ev"]["routine"], b["ev"]["mode"]), tag="pc")
    chk.extra["pc_traces_compared"] = chk.extra.get("pc_traces_compared", 0) + n


def strip_c09(msg):
    import re
    return re.sub(r"[^A-Za-z0-9]+", "_", msg).strip("_")


def run(tier):
    chk = Check(PROP, tier)
    # If the abstract machine cannot interpret the current assembly (an opcode or operand form in no table ...) that is
    # not a verdict: the PC traces of the real routines are then compared pairwise by TLC instead, and only when those
    # find nothing is the run inconclusive (exit 2).
    deferred = None
    try:
        found = analyse(chk, tier, ("C09",))
        found += cpu_conformance(chk, tier)
        report(chk, found, strip_c09)
    except core.Infra as e:
        deferred = e
        chk.notes.append("abstract machine not completed: %s" % str(e)[:300])
    pc_pairs(chk, tier, full=deferred is not None)
    # dispatch: all of the above is about the assembly routines; that Seal / Open reached through crypto/cipher are
    # served by them (and not by the standard library's table-driven generic mode) is decided on recorded
    # constructions: the AEAD built over an accelerated cipher is the accelerated one, and works
    from ..sm2gen import Gen, rb
    g = Gen(chk.rng)
    key = rb(chk.rng, 16)
    for (ns, ts) in ((12, 16), (12, 12), (12, 14), (16, 16), (1, 16), (13, 13), (128, 16)):
        k = g.scenario("dispatch")
        g.add(k, "gcm.aead", h="a", key=key, noncesize=ns, tagsize=ts, path="asm")
        g.add(k, "gcm.seal", h="a", nonce=rb(chk.rng, ns), aad=rb(chk.rng, 5), pt=rb(chk.rng, 21), prefix=[], spare=-1,
              alias="none", repeat=False, j="v")
    chk.exec_and_validate("T_GCM", g.cmds, lambda b: "dispatch." + b["why"].split(": ")[1].replace(" ", "_"), accel=True,
                          pure_budget=0, tag="disp")
    if deferred is not None and not chk.bad:
        raise deferred
    chk.events = max(chk.events, chk.extra.get("asm_paths", 0))
    chk.classes = {"length_vectors": chk.extra.get("asm_contexts", 0)}
    return chk.finish(
        "model_checking",
        "every amd64 assembly routine that has a Go declaration (needExpand, copyAsm, expandKeyAsm, the five block "
        "kernels, gHashBlocks, sealAsm, openAsm) and every arm64 TEXT symbol (expandKeyAsm, five kernels, gHashBlocks, "
        "xor16..256) is extracted from `go tool asm -S` of the current tree and executed "
        "by the TLA+ abstract machine for each length vector (text / aad / nonce / tag swept separately and mixed); "
        "all key, data, nonce, aad and scratch bytes are the single abstract value `sec`, so each explored path holds "
        "for ALL data values; a branch on sec flags or an access through a sec base is reported; openAsm must take "
        "exactly one data-dependent branch (the verdict), both outcomes explored; conformance with the CPU: the real "
        "sealAsm / openAsm / kernels / copyAsm are single-stepped under ptrace for two random data sets per length "
        "vector and the machine must follow every recorded instruction sequence exactly (so the sequences are equal "
        "across data, and the machine's branch semantics are validated against the processor)",
        ["traces_validated_against_impl counts ptrace PC traces of the real routines that the machine followed to the RET",
         "TLC; the opcode classification table in vlib/asmx.py (fail closed on anything unknown) and the value "
         "semantics in AsmMachine.tla; Go assembler's listing",
         "arm64: all twelve TEXT symbols are executed by the same machine with an arm64 classification table "
         "(post-increment and multi-register loads/stores expanded, hand-encoded WORDs decoded as TBL/TBX or "
         "rejected); on arm64 the GCM control flow is Go code, which this check does not cover",
         "lengths bounded (text/aad <= 1100, nonce <= 300); timing of individual instructions is out of scope"])


def replay(path):
    obj = json.load(open(path))
    ex = obj.get("extra", {})
    print("replay: re-run `bin/check %s` - the finding is a property of the extracted listing: %s in %s (contexts %s)" % (
        PROP, ex.get("message"), ex.get("routine"), ex.get("contexts", [])[:3]))
    return run("quick")
