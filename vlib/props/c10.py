"""C10 - Buffer contracts: dst is appended to, inputs are never modified."""
from .. import core
from ..run import Check, generic_replay
from .c06 import rb, cost
from .c07 import seal_all, flip

PROP = "C10"


def mbt_shapes(chk):
    """R4: the (len, cap, need, alias) shapes come from the small model MC_AEADBuf: every
    distinct abstract shape TLC reaches is printed and concretised here."""
    r = chk.model("MC_AEADBuf")
    import re
    shapes = set()
    for m in re.finditer(r'<<"SHAPE", "(\w+)", (\d+), (\d+), (\d+)>>', r["out"]):
        shapes.add((m.group(1), int(m.group(2)), int(m.group(3)), int(m.group(4))))
    if not shapes:
        raise core.Infra("MC_AEADBuf printed no shapes")
    return sorted(shapes)


def gen(chk, tier):
    rng, cmds, sc = chk.rng, [], [0]
    q = tier == "quick"
    key = rb(rng, 16)
    shapes = mbt_shapes(chk)
    # message length classes: empty, short tail only, one block, block+tail, wide kernels (+tail)
    lens = [0, 5, 16, 21, 64, 100, 256 + 37] if q else [0, 1, 5, 15, 16, 17, 21, 32, 48, 64, 100, 128, 200, 256, 293, 512, 700, 1100]
    items = [(key, rb(rng, 12), rb(rng, rng.choice([0, 9, 40])), rb(rng, L), ts)
             for L in lens for ts in ((16,) if q else (16, 12))]
    sealed = seal_all(chk, items)

    def scen(cls):
        sc[0] += 1
        cmds.append(dict(sc=sc[0], op="scenario", cls=cls))
        return sc[0]

    for (key_, nonce, aad, pt, ts), ct in zip(items, sealed):
        for (alias, dlen, cap, need) in shapes:
            # toy (len, cap, need) -> real: need = output size; spare capacity relative to need
            out_seal, out_open = len(pt) + ts, len(pt)
            for op, outn, inp in (("gcm.seal", out_seal, pt), ("gcm.open", out_open, ct)):
                rel = (cap - dlen) - need        # <0: too small, 0: exact fit, >0: slack
                if alias == "none":
                    if cap == 0:
                        spare = -1               # nil dst
                    elif rel < 0:
                        if outn == 0:
                            continue
                        spare = rng.randrange(0, outn)
                    else:
                        spare = outn + (0 if rel == 0 else rng.randrange(1, 20))
                    prefix = rb(rng, dlen * 3)
                else:                            # in place: dst = input[:0]
                    prefix = []
                    if op == "gcm.seal":         # needs len(pt)+ts within the input's array
                        spare = rng.randrange(0, ts) if rel < 0 else ts + (0 if rel == 0 else rng.randrange(1, 9))
                    else:                        # output always fits inside the ciphertext's array
                        if rel < 0:
                            continue
                        spare = 0 if rel == 0 else rng.randrange(1, 9)
                k = scen("%s_%s_%s" % (op.split(".")[1], alias if alias != "none" else ("nil" if spare < 0 else "dst"),
                                       "fits" if rel >= 0 and spare >= 0 else "grows"))
                cmds.append(dict(sc=k, op="gcm.aead", h="a", key=key_, noncesize=len(nonce), tagsize=ts, path="asm"))
                d = dict(sc=k, op=op, h="a", nonce=nonce, aad=aad, prefix=prefix, spare=spare, alias=alias,
                         repeat=(alias == "none"), j="b")
                d["pt" if op == "gcm.seal" else "ct"] = inp
                cmds.append(d)
        # inputs carved from one buffer (nonce || aad || text with spare capacity behind each)
        for op, inp in (("gcm.seal", pt), ("gcm.open", ct)):
            k = scen("%s_packed_inputs" % op.split(".")[1])
            cmds.append(dict(sc=k, op="gcm.aead", h="a", key=key_, noncesize=len(nonce), tagsize=ts, path="asm"))
            d = dict(sc=k, op=op, h="a", nonce=nonce, aad=aad, prefix=[], spare=-1, alias="none", repeat=True, j="b",
                     packed_in=True)
            d["pt" if op == "gcm.seal" else "ct"] = inp
            cmds.append(d)
        # forged message on the same shapes: error, nil, inputs untouched, same answer twice
        bad_ct = flip(ct, 8 * len(pt) + 3)
        for alias, spare in (("none", -1), ("none", len(pt) + 5), ("inplace", 0)):
            k = scen("open_forged_" + alias)
            cmds.append(dict(sc=k, op="gcm.aead", h="a", key=key_, noncesize=len(nonce), tagsize=ts, path="asm"))
            cmds.append(dict(sc=k, op="gcm.open", h="a", nonce=nonce, aad=aad, ct=bad_ct, prefix=[], spare=spare,
                             alias=alias, repeat=(alias == "none"), j="b"))
        # ... and with something already in dst (room behind it or not): a refused message leaves it alone; the record
        # idiom, where dst is the header that is also the additional data: the authentic message still opens afterwards
        for spare in (len(pt) + 3, max(0, len(pt) - 1)):
            k = scen("open_forged_prefix_%s" % ("fits" if spare >= len(pt) else "grows"))
            cmds.append(dict(sc=k, op="gcm.aead", h="a", key=key_, noncesize=len(nonce), tagsize=ts, path="asm"))
            cmds.append(dict(sc=k, op="gcm.open", h="a", nonce=nonce, aad=aad, ct=bad_ct, prefix=[7, 8, 9] + rb(rng, 13),
                             spare=spare, alias="none", repeat=True, j="b"))
        if aad:
            k = scen("open_record_idiom")
            cmds.append(dict(sc=k, op="gcm.aead", h="a", key=key_, noncesize=len(nonce), tagsize=ts, path="asm"))
            for c_ in (bad_ct, ct, bad_ct, ct):
                cmds.append(dict(sc=k, op="gcm.open", h="a", nonce=nonce, aad=aad, ct=c_, prefix=aad, spare=len(pt) + 2,
                                 alias="none", repeat=False, j="b", dst_is_aad=True))
    # prefix (len(dst)) length classes for the path that reallocates and copies the prefix, and for the path that
    # appends in place: every length 0..72 and the neighbours of larger powers of two (the copy routines work in
    # 16/8/4/2/1-byte stages)
    (key_, nonce, aad, pt, ts), ct = (items[1], sealed[1])
    plens = list(range(0, 73)) + [95, 96, 97, 127, 128, 129, 255, 256, 257, 1000, 1024]
    if q:
        plens = list(range(0, 41)) + [47, 48, 49, 63, 64, 65, 127, 128, 129, 256, 1000]
    for plen in plens:
        for op, outn, inp in (("gcm.seal", len(pt) + ts, pt), ("gcm.open", len(pt), ct)):
            for grows in ((True, False) if (not q or plen % 4 == 0) else (True,)):
                if grows and outn == 0:
                    continue
                spare = rng.randrange(0, outn) if grows else outn + rng.choice([0, 0, 3])
                k = scen("%s_prefixlen_%s" % (op.split(".")[1], "grows" if grows else "fits"))
                cmds.append(dict(sc=k, op="gcm.aead", h="a", key=key_, noncesize=len(nonce), tagsize=ts, path="asm"))
                d = dict(sc=k, op=op, h="a", nonce=nonce, aad=aad, prefix=[1 + (i * 7 + plen) % 255 for i in range(plen)],
                         spare=spare, alias="none", repeat=True, j="b")
                d["pt" if op == "gcm.seal" else "ct"] = inp
                cmds.append(d)
    # Sum follows the same append rule
    for L in ([0, 55, 64, 100] if q else range(0, 130, 3)):
        for inlen, spare in ((0, 0), (5, 0), (5, 31), (5, 32), (0, 32), (7, 100)):
            k = scen("sum_%s" % ("fits" if spare >= 32 else "grows"))
            cmds.append(dict(sc=k, op="sm3.new", h="a"))
            cmds.append(dict(sc=k, op="sm3.write", h="a", data=rb(rng, L)))
            cmds.append(dict(sc=k, op="sm3.sum", h="a", **{"in": rb(rng, inlen), "spare": spare}))
            cmds.append(dict(sc=k, op="sm3.sum", h="a", **{"in": rb(rng, inlen), "spare": spare}))
    return cmds


def keyfn(b):
    ev = b["ev"]
    why = b["why"].split(": ")[1].replace(" ", "_")
    if ev["op"].startswith("gcm."):
        shape = ev.get("alias", "none")
        if shape == "none":
            shape = "nil_dst" if ev.get("spare", -1) < 0 else "dst_with_capacity"
        return "%s.%s.%s" % (ev["op"], shape, why)
    return "%s.%s" % (ev["op"], why)


def run(tier):
    chk = Check(PROP, tier)
    chk.model("MC_Vectors")
    cmds = gen(chk, tier)
    sm3 = [c for c in cmds if c["op"].startswith("sm3") or c["op"] == "scenario"]
    gcm_sc = set(c["sc"] for c in cmds if c["op"].startswith("gcm."))
    gcm = [c for c in cmds if c["sc"] in gcm_sc]
    sm3 = [c for c in cmds if c["sc"] not in gcm_sc]
    chk.exec_and_validate("T_GCM", gcm, keyfn, cost=cost, accel=True, pure_budget=6000000, tag="gcm")
    # the same shapes on the arm64 Go glue transplanted onto the amd64 kernels (vlib/glue.py)
    gsc = sorted(gcm_sc)
    gsel = set(gsc[::3]) if tier == "quick" else set(gsc)
    gl = [dict(c) for c in gcm if c["sc"] in gsel]
    for c in gl:
        if c["op"] == "scenario":
            c["cls"] = "glue_" + c.get("cls", "")
    chk.exec_and_validate("T_GCM", gl, lambda b: "glue." + keyfn(b), cost=cost, accel=True, pure_budget=0, tag="glue",
                          variant="glue")
    chk.exec_and_validate("T_SM3", sm3, keyfn, tag="sm3")
    # SM2 entry points: key, digest, id, message, signature and public-key slices byte-identical after
    # every call (T_SM2 compares the ins_after / priv_after snapshots), each call made twice
    from .. import sm2gen, ecpy as ec
    from ..sm2gen import Gen, b32, rscalar
    g = Gen(chk.rng)
    for _ in range(4 if tier == "quick" else 40):
        d = rscalar(chk.rng)
        pt = ec.mul(d)
        px, py = b32(pt[0]), b32(pt[1])
        for kind in ("hashed", "za", "id"):
            kw = dict(kind=kind, priv=b32(d), script=sm2gen.script_of([rscalar(chk.rng)]))
            vw = dict(kind=kind, pubx=px, puby=py, r=b32(rscalar(chk.rng)), s=b32(rscalar(chk.rng)))
            if kind == "hashed":
                kw["e"] = vw["e"] = rb(chk.rng, 32)
            elif kind == "za":
                kw["za"] = vw["za"] = rb(chk.rng, 32)
                kw["msg"] = vw["msg"] = rb(chk.rng, 40)
            else:
                kw.update(id=rb(chk.rng, 16), pubx=px, puby=py, msg=rb(chk.rng, 40))
                vw.update(id=kw["id"], msg=kw["msg"])
            for pk in (False, True):        # separately allocated inputs, and inputs carved from one buffer
                k = g.scenario("sm2_inputs_%s%s" % (kind, "_packed" if pk else ""))
                g.add(k, "sm2.sign", **dict(kw, packed=pk))
                g.add(k, "sm2.verify", **dict(vw, packed=pk))
            k = g.scenario("sm2_inputs_" + kind)
            g.add(k, "sm2.sign", **kw)
            g.add(k, "sm2.sign", **dict(kw, script=sm2gen.script_of([rscalar(chk.rng)])))
            g.add(k, "sm2.verify", **vw)
            g.add(k, "sm2.verify", **vw)
        k = g.scenario("sm2_inputs_keys")
        g.add(k, "sm2.derivepublic", priv=b32(d))
        g.add(k, "sm2.testpriv", priv=b32(d))
        g.add(k, "sm2.za", id=rb(chk.rng, 16), pubx=px, puby=py)
        g.add(k, "sm2.za", id=rb(chk.rng, 16), pubx=px, puby=py, packed=True)

    def sm2key(b):
        ev = b["ev"]
        snaps = [("ins_after", None), ("priv_after", "priv")]
        return "%s.%s" % (ev["op"], b["why"].split(": ")[-1].replace(" ", "_"))
    chk.exec_and_validate("T_SM2", g.cmds, sm2key, accel=True, families=("bits", "big"), tag="sm2")
    # static complement (B3): in the extracted listing no store targets an input region
    from . import c09
    # If the abstract machine cannot interpret the current assembly (an opcode or operand form in no table, a mask
    # value it does not compute) that is not a verdict: violations found by the recorded executions above stand;
    # only when there are none is the run inconclusive (exit 2).
    try:
        found = c09.analyse(chk, tier, ("C10",), light=True)
        c09.report(chk, found, c09.strip_c09)
    except core.Infra as e:
        if not chk.bad:
            raise
        chk.notes.append("static half not completed: %s" % str(e)[:300])
    return chk.finish(
        "model_checking",
        "every (alias, len, cap, need) shape reached by the small model MC_AEADBuf, concretised for Seal and Open "
        "(authentic and forged) over message-length classes of the kernel ladder, each call repeated on the same "
        "buffers, byte-for-byte snapshots of nonce/aad/input after the call, every dst prefix length 0..72 and around "
        "powers of two on the reallocating and the in-place path, inputs carved from one buffer; Sum with and without spare capacity; TLC "
        "requires result = dst || output, inputs unchanged (exact in-place overlap excepted), repeat = first answer",
        ["TLC; GCM/SM4/SM3 specs validated by published vectors on every run",
         "same-array reuse is recorded but not demanded (the property asks for the appended value)",
         "SM2 buffers are covered by the no-input-modification fields of the C01/C02/C03/C12 traces"])


def replay(path):
    return generic_replay(PROP, path)
