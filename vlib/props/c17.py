"""C17 - Shared cipher, AEAD and key material are safe for concurrent use."""
import os, json
from .. import core, asmcheck as ac, ecpy as ec
from ..run import Check, generic_replay
from ..sm2gen import rb, b32, rscalar, N
from .c07 import seal_all

PROP = "C17"
LOCMAP = {"rk": "obj", "key": "in", "nonce": "in", "pt": "in", "ct": "in", "aad": "in", "src": "in", "dst": "out",
          "temp": "scratch", "enc": "out", "dec": "out"}
ORDER = ["obj", "in", "pkg", "scratch", "out"]


def footprint(results, locmap=None):
    """union of the access summaries over the contexts -> ordered micro-steps"""
    LOCMAP = locmap or globals()["LOCMAP"]
    rd, wr = set(), set()
    for r in results:
        for reg, (rlo, rhi, wlo, whi) in r["acc"].items():
            if reg not in LOCMAP:
                continue                     # RODATA
            if rlo >= 0:
                rd.add(LOCMAP[reg])
            if wlo >= 0:
                wr.add(LOCMAP[reg])
    steps = []
    for loc in ORDER:
        if loc in rd:
            steps.append(("r", loc))
    for loc in ORDER:
        if loc in wr:
            steps.append(("w", loc))
    return steps


def write_conc_input(chk):
    vec = [(0, 0, 12, 16), (5, 3, 12, 16), (33, 20, 16, 12), (300, 130, 12, 16)]
    fps = {}
    # where does the Go glue take the scratch block from?  (go/ast on sm4_gcm_amd64.go)
    from .. import extract
    ex = extract.raw_extract(chk)
    chk.extra["scratch_is_local"] = dict(seal=ex["seal_scratch_local"], open=ex["open_scratch_local"])
    # package-level variables written outside init (go/ast): shared by all concurrent calls
    pw = ex["package_writes"]
    chk.extra["package_writes"] = pw
    # methods of the sm4 types that write through their receiver (go/ast): the object is shared
    rw = ex.get("receiver_writes", [])
    chk.extra["receiver_writes"] = rw

    def rw_kinds(w):
        f = w["func"].lower()
        if "seal" in f:
            return {"seal"}
        if "open" in f:
            return {"open"}
        if "crypt" in f and "gcm" not in w["type"].lower():
            return {"block"}
        return {"seal", "open", "block"} if "gcm" not in w["type"].lower() else {"seal", "open"}
    rw_by_kind = set(k for w in rw for k in rw_kinds(w))
    pw_sm4 = any(w["pkg"] == "sm4" for w in pw)
    pw_sm2 = any(w["pkg"] != "sm4" for w in pw)
    for kind, fname, rt, ctxs in (("seal", "gcm_amd64.s", "sealAsm", ac.ctx_gcm(vec, False)),
                                  ("open", "gcm_amd64.s", "openAsm", ac.ctx_gcm(vec, True)),
                                  ("block", "asm_amd64.s", "cryptoBlockAsm", ac.ctx_kernel(1))):
        res, st = ac.run_routine(chk, fname, rt, ctxs, workers=2)
        chk.states += st["distinct"]
        chk.transitions += st["generated"]
        lm = dict(LOCMAP)
        if kind in ("seal", "open") and not ex[kind + "_scratch_local"]:
            lm["temp"] = "obj"          # scratch reachable from the shared object / a package variable
        fps[kind] = footprint(res, lm)
        if kind in rw_by_kind and ("w", "obj") not in fps[kind]:
            fps[kind] = fps[kind] + [("w", "obj")]
        if pw_sm4:
            fps[kind] = [("r", "pkg")] + fps[kind] + [("w", "pkg")]
    # Go-level calls (sign / verify / derive): read shared keys and package-level constants, write
    # private results; that they do not write package state is what the dynamic half observes
    fps["sm2"] = [("r", "in"), ("r", "pkg"), ("w", "scratch"), ("w", "out")] + ([("w", "pkg")] if pw_sm2 else [])
    d = core.stage_specs(chk.rd)
    with open(os.path.join(d, "ConcInput.tla"), "w") as f:
        f.write("----------------------------- MODULE ConcInput -----------------------------\n")
        f.write("(* GENERATED: footprints of the assembly-backed calls as computed by AsmMachine on the\n")
        f.write("   listing of %s; do not edit. *)\n" % core.REPO)
        f.write("Kinds == {%s}\n" % ", ".join('"%s"' % k for k in sorted(fps)))
        f.write("Footprints == [k \\in Kinds |->\n  CASE " + "\n    [] ".join(
            'k = "%s" -> << %s >>' % (k, ", ".join('<<"%s", "%s">>' % s for s in fps[k])) for k in sorted(fps)) + "]\n")
        f.write("=============================================================================\n")
    chk.extra["footprints"] = {k: ["%s %s" % s for s in v] for k, v in fps.items()}
    return fps


def batch(chk, tier, race):
    """one concurrent batch: returns (summary-event commands, expanded sequential events)"""
    rng = chk.rng
    pool = []

    def put(b):
        pool.append(list(b))
        return len(pool) - 1

    key = put(rb(rng, 16))
    # two signing keys used side by side (anything remembered about "the" key by one call meets the other key)
    ds = [rscalar(rng), rscalar(rng)]
    privs = [put(b32(d_)) for d_ in ds]
    pubis = []
    for d_ in ds:
        pub = ec.mul(d_)
        pubis.append(put(b32(pub[0]) + b32(pub[1])))
    calls = []
    items = [(pool[key], rb(rng, 12), rb(rng, rng.choice([0, 9, 130])), rb(rng, L), 16) for L in (0, 5, 16, 33, 100, 300)]
    sealed = seal_all(chk, items)
    for (k_, nonce, aad, pt, ts), ct in zip(items, sealed):
        ni, ai, pi, ci = put(nonce), put(aad), put(pt), put(ct)
        calls.append(dict(k="seal", a=ni, b=pi, c=ai, d=0))
        calls.append(dict(k="open", a=ni, b=ci, c=ai, d=0))
        bad = list(ct); bad[-1] ^= 1
        calls.append(dict(k="open", a=ni, b=put(bad), c=ai, d=0))
        bad2 = list(ct); bad2[0 if len(ct) > 16 else -2] ^= 0x40
        calls.append(dict(k="open", a=ni, b=put(bad2), c=ai, d=0))    # refused calls next to accepted ones: error paths run concurrently too
    for _ in range(6):
        si = put(rb(rng, 16))
        calls.append(dict(k="enc", a=si, b=0, c=0, d=0))
        calls.append(dict(k="dec", a=si, b=0, c=0, d=0))
    for i in range(4 if tier == "quick" else 12):
        e = rb(rng, 32)
        ei = put(e)
        kk = rscalar(rng)
        ki = put(b32(kk))
        d, priv, pubi = ds[i % 2], privs[i % 2], pubis[i % 2]
        calls.append(dict(k="sign", a=priv, b=ei, c=ki, d=0))
        # a valid signature to verify concurrently (constructed by the generator; judged by TLC)
        x1 = ec.mul(kk)[0]
        r = (int.from_bytes(bytes(e), "big") + x1) % N
        s = ec.inv_n(1 + d) * (kk - r * d) % N
        calls.append(dict(k="verify", a=pubi, b=ei, c=put(b32(r)), d=put(b32(s))))
        calls.append(dict(k="derive", a=priv, b=0, c=0, d=0))
        # the id-level entry points, with a DIFFERENT identity per call (anything one call parks about "the" user
        # hash - a scratch ZA, a cached identity - meets another call's)
        pub = ec.mul(d)
        idb = rb(rng, rng.choice([0, 5, 16, 16, 40]))
        pidi = put(b32(pub[0]) + b32(pub[1]) + idb)
        msg = rb(rng, rng.choice([0, 14, 60]))
        mi = put(msg)
        k2 = rscalar(rng)
        calls.append(dict(k="signid", a=priv, b=pidi, c=put(b32(k2)), d=mi))
        calls.append(dict(k="za", a=pidi, b=0, c=0, d=0))
        calls.append(dict(k="verifyid", a=pidi, b=mi, c=put(b32(rscalar(rng))), d=put(b32(rscalar(rng)))))
        calls.append(dict(k="sm3", a=put(rb(rng, rng.choice([0, 55, 64, 200]))), b=0, c=0, d=0))
    rng.shuffle(calls)
    return dict(pool=pool, key=key, calls=calls, workers=16, reps=(100 if tier == "quick" else 2000))


def expand(pool, key, calls, results):
    """concurrent results -> ordinary events for the sequential trace specs"""
    gcm, sm4e, sm2e, sm3e = [], [], [], []
    sc = [0]

    def scen(lst, cls):
        sc[0] += 1
        lst.append(dict(sc=sc[0], op="scenario", cls=cls, panic=""))
        return sc[0]
    for call, res in zip(calls, results):
        k = call["k"]
        pa = res.get("panic", "")
        if k in ("seal", "open"):
            s = scen(gcm, "concurrent_" + k)
            gcm.append(dict(sc=s, op="gcm.aead", h="a", key=pool[key], noncesize=len(pool[call["a"]]), tagsize=16, path="asm",
                            err="", kind="*sm4.sm4GcmAsm", stdlib_mode=False, asm_available=True, key_after=pool[key], ns=len(pool[call["a"]]), ov=16, panic=""))
            base = dict(sc=s, h="a", nonce=pool[call["a"]], aad=pool[call["c"]], prefix=[], spare=-1, alias="none",
                        repeat=False, j="v", panic=pa, out=res.get("out", []), out2=[],
                        nonce_after=pool[call["a"]], aad_after=pool[call["c"]], in_after=pool[call["b"]],
                        same_array=False, canary_ok=True)
            if k == "seal":
                gcm.append(dict(base, op="gcm.seal", pt=pool[call["b"]]))
            else:
                gcm.append(dict(base, op="gcm.open", ct=pool[call["b"]], err=res.get("err", ""), err2="",
                                nil_on_err=(res.get("err", "") == "" or res.get("out", []) == []), nil_on_err2=True, spill=[], spill_clean=True, prefix_after=[]))
        elif k in ("enc", "dec"):
            s = scen(sm4e, "concurrent_block")
            sm4e.append(dict(sc=s, op="sm4.newcipher", h="c", key=pool[key], asm=True, asm_available=True, err="",
                             kind="*sm4.sm4CipherAsm", portable=False, key_after=pool[key], blocksize=16, panic=""))
            sm4e.append(dict(sc=s, op="sm4.crypt", h="c", dec=(k == "dec"), src=pool[call["a"]], inplace=False,
                             out=res.get("out", []), src_after=pool[call["a"]], panic=pa))
        elif k == "sign":
            s = scen(sm2e, "concurrent_sign")
            sm2e.append(dict(sc=s, op="sm2.sign", kind="hashed", priv=pool[call["a"]], e=pool[call["b"]],
                             script=[dict(d=pool[call["c"]], err="")], r=res.get("r", []), s=res.get("s", []),
                             err=res.get("err", ""), nil_out=False, reads=[[32, 32, ""]], priv_after=pool[call["a"]],
                             ins_after=[pool[call["b"]]], panic=pa))
        elif k == "verify":
            s = scen(sm2e, "concurrent_verify")
            pk = pool[call["a"]]
            sm2e.append(dict(sc=s, op="sm2.verify", kind="hashed", pubx=pk[:32], puby=pk[32:], e=pool[call["b"]],
                             r=pool[call["c"]], s=pool[call["d"]], ok=res.get("ok", False), err=res.get("err", ""),
                             ins_after=[pk[:32], pk[32:], pool[call["c"]], pool[call["d"]], pool[call["b"]]], panic=pa))
        elif k == "signid":
            s = scen(sm2e, "concurrent_signid")
            pk = pool[call["b"]]
            sm2e.append(dict(sc=s, op="sm2.sign", kind="id", priv=pool[call["a"]], id=pk[64:], pubx=pk[:32], puby=pk[32:64],
                             msg=pool[call["d"]], script=[dict(d=pool[call["c"]], err="")], r=res.get("r", []), s=res.get("s", []),
                             err=res.get("err", ""), nil_out=False, reads=[[32, 32, ""]], priv_after=pool[call["a"]],
                             ins_after=[pk[64:], pk[:32], pk[32:64], pool[call["d"]]], panic=pa))
        elif k == "verifyid":
            s = scen(sm2e, "concurrent_verifyid")
            pk = pool[call["a"]]
            sm2e.append(dict(sc=s, op="sm2.verify", kind="id", id=pk[64:], pubx=pk[:32], puby=pk[32:64], msg=pool[call["b"]],
                             r=pool[call["c"]], s=pool[call["d"]], ok=res.get("ok", False), err=res.get("err", ""),
                             ins_after=[pk[:32], pk[32:64], pool[call["c"]], pool[call["d"]], pk[64:], pool[call["b"]]], panic=pa))
        elif k == "za":
            s = scen(sm2e, "concurrent_za")
            pk = pool[call["a"]]
            sm2e.append(dict(sc=s, op="sm2.za", id=pk[64:], pubx=pk[:32], puby=pk[32:64], za=res.get("out", []),
                             err=res.get("err", ""), ins_after=[pk[64:], pk[:32], pk[32:64]], panic=pa))
        elif k == "derive":
            s = scen(sm2e, "concurrent_derive")
            sm2e.append(dict(sc=s, op="sm2.derivepublic", priv=pool[call["a"]], x=res.get("x", []), y=res.get("y", []),
                             err=res.get("err", ""), priv_after=pool[call["a"]], panic=pa))
        elif k == "sm3":
            s = scen(sm3e, "concurrent_hash")
            sm3e.append(dict(sc=s, op="sm3.sumsm3", data=pool[call["a"]], out=res.get("out", []), data_after=pool[call["a"]],
                             panic=pa))
    return gcm, sm4e, sm2e, sm3e


def run(tier):
    chk = Check(PROP, tier)
    # If the abstract machine cannot interpret the current assembly, the footprints (and with them the interleaving
    # model) are not available: that is not a verdict - the concurrent executions below still decide; only when they
    # find nothing is the run inconclusive (exit 2).
    deferred = None
    try:
        write_conc_input(chk)
        # the footprints are extracted from the current tree (B3), so a violated invariant of this
        # model is a finding about the code, not about the design
        r = core.tlc_mc(chk.rd, "MC_Conc", cfg="MC_Conc.cfg" if tier == "thorough" else "MC_Conc_quick.cfg", timeout=3000,
                        allow_violation=True)
        chk.states += r["distinct"]
        chk.transitions += r["generated"]
        chk.models.append(dict(module="MC_Conc", generated=r["generated"], distinct=r["distinct"], wall_s=round(r["wall"], 1)))
    except core.Infra as e:
        deferred = e
        chk.notes.append("footprint model not completed: %s" % str(e)[:300])
        r = dict(ok=True)
    if not r["ok"]:
        import re
        m = re.search(r"Invariant (\w+) is violated", r["out"])
        if not m:
            raise core.Infra("MC_Conc failed:\n" + core._tail(r["out"]))
        pw = chk.extra.get("package_writes") or []
        suffix = (".package_state_written." + pw[0]["pkg"].replace("/", "_") + "." + pw[0]["var"]) if pw else ""
        rw = chk.extra.get("receiver_writes") or []
        if rw and not pw:
            suffix = ".object_written_by_method.%s.%s" % (rw[0]["type"], rw[0]["func"])
        chk.add_failure("conc.footprint_model.%s%s" % (m.group(1), suffix),
                        "interleaving model over the extracted footprints violates %s" % m.group(1),
                        dict(commands=[], footprints=chk.extra.get("footprints"), invariant=m.group(1),
                             kind="footprint-model"))
    b = batch(chk, tier, False)
    cmds = [dict(sc=1, op="scenario", cls="batch"), dict(sc=1, op="conc.batch", **b)]
    race_reports = 0
    if tier == "thorough":
        # same batch under the race detector (sees Go-level accesses only)
        drv_race = core.build_driver(chk.rd, race=True, name="drv_race")
        rlog = os.path.join(chk.rd, "race")
        core.run_driver(drv_race, cmds, chk.rd, tag="race", env={"GORACE": "halt_on_error=0 log_path=" + rlog})
        for fn in os.listdir(chk.rd):
            if fn.startswith("race."):
                race_reports += open(os.path.join(chk.rd, fn)).read().count("WARNING: DATA RACE")
    evs = core.run_driver(chk.drv(), cmds, chk.rd, tag="conc")
    ev = evs[1]
    if ev.get("panic"):
        raise core.Infra("concurrent batch panicked in the harness: %s" % ev["panic"])
    results = ev["results"]
    gcm, sm4e, sm2e, sm3e = expand(b["pool"], b["key"], b["calls"], results)
    from .c06 import cost
    for module, events, accel in (("T_GCM", gcm, True), ("T_SM4", sm4e, True), ("T_SM2", sm2e, True), ("T_SM3", sm3e, False)):
        if accel:
            from .. import accel as _a
            _a.selftest(chk, ("bits", "big"))
        bad, stats = core.validate(chk.rd, module, events, accel=accel)
        chk.events += stats["events"]
        chk.scenarios += stats["scenarios"]
        chk.states += stats["states"]
        chk.accepted += stats["scenarios"] - len(set(x["sc"] for x in bad))
        for x in bad[:1]:
            chk.add_failure("concurrent." + x["ev"]["op"] + ".result_differs_from_serial", x["why"],
                            dict(commands=cmds, module=module, event=x["ev"]["op"], why=x["why"]))
    summ = [dict(sc=1, op="scenario", cls="batch_summary", panic=""),
            dict(sc=1, op="conc.summary", panic="", pool_unchanged=ev["pool_unchanged"], pkg_unchanged=ev["pkg_unchanged"],
                 unstable=sum(1 for r in results if r.get("unstable")), panics=sum(1 for r in results if r.get("panic")),
                 race_reports=race_reports)]
    bad, stats = core.validate(chk.rd, "T_Conc", summ)
    chk.events += 1
    for x in bad:
        chk.add_failure("concurrent." + x["why"].split(": ")[1].replace(" ", "_"), x["why"], dict(commands=cmds, why=x["why"]))
    if deferred is not None and not chk.bad:
        raise deferred
    chk.classes = {"concurrent_calls": len(results), "workers": 16, "repetitions": b["reps"]}
    chk.samples.append(dict(calls=b["calls"][:6], results=[{k: (v if not isinstance(v, list) else v[:8]) for k, v in r.items()} for r in results[:3]]))
    return chk.finish(
        "model_checking",
        "model: TLC explores every interleaving of 2 (quick) / 3 (thorough) goroutines x 2 calls whose read/write "
        "footprints are computed by the abstract machine on the current listing (seal, open, block) - no race, every "
        "read sees the initial value, shared locations untouched; code: 16 goroutines run %d repetitions of a mixed "
        "batch (Seal, Open authentic+forged, Encrypt, Decrypt, SignHashed, VerifyHashed, DerivePublic, SM3) on ONE "
        "Block, ONE AEAD, one key set and shared input buffers; every result is judged by TLC with the sequential "
        "specifications, the buffer pool and sm2's package state are compared before/after; thorough also runs the "
        "batch under -race" % b["reps"],
        ["TLC; footprints from AsmMachine; sequential specs (vectors / toy models); the executor's pool hashing",
         "a schedule-dependent fault that does not change any result or buffer is invisible to the dynamic half",
         "the race detector cannot see accesses made by assembly (hence the footprint model)"])


def replay(path):
    return run("quick")
