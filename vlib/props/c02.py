"""C02 - SM2: signatures are exactly the GM/T 0003.2 values for (d, e, k)."""
import itertools
from .. import core, sm2gen
from ..sm2gen import Gen, rb, b32, N, rscalar
from ..run import Check, generic_replay

PROP = "C02"
T256_ = 1 << 256
RULES = ["k_ge_n", "k_zero", "r_zero", "rk_n", "s_zero"]


def gen(chk, tier):
    rng = chk.rng
    g = Gen(rng)
    q = tier == "quick"
    # (1) every rejection rule as first / second / third candidate before a valid one.
    # rules r_zero / rk_n / s_zero need a digest solved for the candidate, so a stream mixes
    # one solved rule with the digest-independent ones.
    orders = []
    for rule in RULES:
        orders.append([rule])
    for a, b in itertools.permutations(RULES, 2):
        orders.append([a, b])
    if not q:
        for a, b, c in itertools.permutations(RULES, 3):
            orders.append([a, b, c])
    else:
        for a, b, c in [("k_ge_n", "k_zero", "r_zero"), ("k_zero", "s_zero", "k_ge_n"), ("rk_n", "k_ge_n", "k_zero")]:
            orders.append([a, b, c])
    for order in orders:
        solved = [r for r in order if r in ("r_zero", "rk_n", "s_zero")]
        if len(solved) > 1:
            continue                      # two solved rules would need two different digests
        d = rscalar(rng)
        e = None
        cands = []
        for rule in order:
            k, e2 = sm2gen.rule_candidate(rng, rule, d)
            if e2 is not None:
                e = e2
            cands.append(k)
        if e is None:
            e = rng.getrandbits(256)
        cands.append(sm2gen.valid_k_for(rng, d, e % N))
        cands.append(rscalar(rng))        # must stay unread
        g.one("reject_" + "+".join(order), "sm2.sign", kind="hashed", priv=b32(d), e=b32(e),
              script=sm2gen.script_of(cands))
    # (1b) neighbours of the r + k = n rule that must NOT be rejected: r + k = n +- delta, r + k just
    # below 2^256 (a 32-byte sum above n), r + k = n + 1, n - 1
    from ..sm2gen import e_for_r
    for delta in ([1, -1, 2, 255, 256, (1 << 256) - N - 1, ((1 << 256) - N) // 2] if q else
                  [1, -1, 2, -2, 3, 255, 256, 65536, (1 << 256) - N - 1, (1 << 256) - N - 2, ((1 << 256) - N) // 2, ((1 << 256) - N) // 3]):
        for _ in range(2):
            d = rscalar(rng)
            k = rng.randrange(max(2, delta + 2), N - 1)
            r = (N + delta - k) % N
            if r == 0:
                continue
            e = e_for_r(k, r)
            g.one("rk_near_n", "sm2.sign", kind="hashed", priv=b32(d), e=b32(e), script=sm2gen.script_of([k, rscalar(rng)]))
    # (1d) boundary and word-structured nonces and keys that MUST be accepted as the first candidate
    # (k in [1, n-1]: 1, 2, n-1, n-2, powers of two, limbs with zero halves, ...), and their out-of-range
    # neighbours that must be skipped
    from ..sm2gen import limb_structured
    edge = [1, 2, 3, N - 1, N - 2, N - 3, 1 << 32, 1 << 64, 1 << 128, 1 << 192, 1 << 255, (1 << 32) - 1, (1 << 64) - 1]
    struct = [v % N for v in limb_structured(rng, 12 if q else 1000)]
    for k in edge + [v for v in struct if v]:
        d = rng.choice([rscalar(rng), rscalar(rng), (rng.choice(struct) % (N - 2)) + 1])
        g.one("nonce_edge_accept", "sm2.sign", kind="hashed", priv=b32(d), e=rb(rng, 32),
              script=sm2gen.script_of([k, rscalar(rng)]))
    for k in [N, N + 1, T256_ - 1] + [N - 1 + v for v in limb_structured(rng, 6 if q else 100, maxbits=224)]:
        d = rscalar(rng)
        g.one("nonce_edge_skip", "sm2.sign", kind="hashed", priv=b32(d), e=rb(rng, 32),
              script=sm2gen.script_of([k, rscalar(rng), rscalar(rng)]))
    # (1e) very long runs of rejected candidates (a retry limit is not part of the standard's signer): n copies of one
    # out-of-range candidate (spec side: the run lemma of T_SM2), then a valid nonce
    for n_, cand in ((5000, T256_ - 1), (70000, N), (70000, 0), (300000, T256_ - 1)) if not q else ((5000, T256_ - 1), (70000, N), (70000, 0)):
        d = rscalar(rng)
        g.one("long_rejected_run", "sm2.sign", kind="hashed", priv=b32(d), e=rb(rng, 32), run=dict(d=b32(cand), n=n_),
              script=sm2gen.script_of([rscalar(rng), rscalar(rng)]))
    # (1c) x1 injected through the verification hook: corners of r = (e + x1) mod n that no nonce
    # reaches (e + x1 >= 2n needs x1 in the top 2^-32 sliver of the field), and x1 in the gap [n, p)
    from ..sm2gen import P
    T256 = 1 << 256
    x1s = [0, 1, N - 1, N, N + 1, P - 1, 2 * N - T256, 2 * N - T256 + 1, P - 2, (N + P) // 2]
    es = [0, 1, N - 1, N, T256 - 1, T256 - 2, 2 * N - (P - 1), N - 5]
    for x1 in x1s:
        for ev_ in (es if not q else es[::2] + [T256 - 1]):
            d = rscalar(rng)
            ks = [rscalar(rng), rscalar(rng), rscalar(rng)]
            # also make the first candidate hit r + k = n for this (e, x1) sometimes
            r0 = (ev_ + x1) % N
            if r0 and rng.random() < 0.3:
                ks[0] = (N - r0) % N
            g.one("x1_injected", "sm2.sign", kind="hashed", priv=b32(d), e=b32(ev_), x1=b32(x1), script=sm2gen.script_of(ks))
    # (2) digests solved so that r or s has leading zero bytes
    for which in ("r", "s", "t"):
        for nz in ((1, 2) if q else (1, 2, 3, 4)):
            for _ in range(2 if q else 6):
                d = rscalar(rng)
                k, e = sm2gen.leading_zero_case(rng, d, which, nz)
                g.one("leading_zero_%s" % which, "sm2.sign", kind="hashed", priv=b32(d), e=b32(e),
                      script=sm2gen.script_of([k]))
    # (3) key classes
    e = rb(rng, 32)
    keys = [("zero", b32(0)), ("one", b32(1)), ("n_minus_2", b32(N - 2)), ("n_minus_1", b32(N - 1)), ("n", b32(N)),
            ("n_plus_1", b32(N + 1)), ("max", b32((1 << 256) - 1)), ("empty", []), ("short_zero", [0] * 5),
            ("short31", rb(rng, 31)), ("short1", [7]), ("long33_valid", [0] + b32(rscalar(rng))),
            ("long33", [1] + rb(rng, 32)), ("long64", rb(rng, 64))]
    keys += [("structured_valid", b32((v % (N - 2)) + 1)) for v in limb_structured(rng, 6 if q else 100)]
    keys += [("structured_over", b32(N - 2 + v)) for v in limb_structured(rng, 6 if q else 100, maxbits=224)]
    for name, key in keys:
        g.one("key_" + name, "sm2.sign", kind="hashed", priv=key, e=e,
              script=sm2gen.script_of([rscalar(rng), rscalar(rng)]))
    # (4) standard vector (GM/T 0003.5 appendix A style: the repository's Test_Sign values) and random
    for _ in range(40 if q else 15000):
        d = rng.choice([1, 2, N - 2, rscalar(rng), rscalar(rng)])
        ev = rng.choice([0, 1, N - 1, N, (1 << 256) - 1, rng.getrandbits(256), rng.getrandbits(256)])
        g.one("random", "sm2.sign", kind="hashed", priv=b32(d), e=b32(ev),
              script=sm2gen.script_of([rscalar(rng), rscalar(rng)]))
    return g.cmds


def keyfn(b):
    return sign_key(b)


def sign_key(b):
    """Failure key naming the root cause: which key class was not refused, or which rejection
    rule was not applied (the first candidate where the code and the definition part ways)."""
    ev = b["ev"]
    why = b["why"]
    pre = why.split(": ")[0]
    if "invalid key" in why or why.endswith("panic"):
        pl = len(ev.get("priv", []))
        val = int.from_bytes(bytes(ev.get("priv", [])), "big")
        cls = "zero" if val == 0 else "ge_n_minus_1" if val >= N - 1 else "in_range"
        return "%s.%s.len%s.%s" % (pre, "panic" if why.endswith("panic") else "invalid_key_not_refused",
                                   "32" if pl == 32 else "lt32" if pl < 32 else "gt32", cls)
    if "bytes consumed" in why:
        trail = why.split("rejection rule ")[1].rstrip(",").split(",")
        consumed = sum(r[1] for r in ev.get("reads", []))
        idx = consumed // 32 - 1
        if 0 <= idx < len(trail) and trail[idx] != "ok":
            rule = trail[idx]
            if rule == "k_range":
                cand = ev["script"][idx]["d"] if idx < len(ev["script"]) else []
                rule = "k_zero" if not any(cand) else "k_ge_n"
            return "%s.rule_not_applied.%s" % (pre, rule)
        return "%s.valid_candidate_rejected_or_overread" % pre
    return why.replace(": ", ".").replace(" ", "_").replace("(", "").replace(")", "").replace(",", "")


def run(tier):
    chk = Check(PROP, tier)
    chk.model("MC_SM2Toy", cfg="MC_SM2Toy.cfg" if tier == "thorough" else "MC_SM2Toy_quick.cfg")
    cmds_ = gen(chk, tier)
    chk.exec_and_validate("T_SM2", cmds_, keyfn, accel=True, families=("bits", "big"))
    chk.first_use("T_SM2", cmds_, keyfn, accel=True, families=("bits", "big"))
    return chk.finish(
        "model_checking",
        "SignHashed on streams whose first candidates are solved to hit each rejection rule (k >= n, k = 0, r = 0, "
        "r + k = n, s = 0) alone and in every order of two (thorough: three) before a valid nonce, digests solved so "
        "that r, s or r+s has 1..4 leading zero bytes, key classes (0, 1, n-2, n-1, n, n+1, 2^256-1, empty, short, "
        "33 and 64 bytes), nonces and keys on the ACCEPTING side of each bound (1, 2, n-1, n-2, powers of two) and "
        "word-structured values (limbs of 64/32/16/8 bits with zero halves, single bits, all-ones) on both sides, x1 "
        "injected through the verification hook, seeded random; TLC recomputes (r, s, error, bytes consumed) with module SM2 on the SM2 curve",
        ["TLC; SM2.tla/EC.tla model-checked on a toy curve (group axioms, sign/verify round trip, rule coverage)",
         "BigNat/EC Java accelerators, compared with the pure TLA+ definitions on every run",
         "digests are 32 bytes; keys/nonces sampled beyond the solved classes"])


def replay(path):
    return generic_replay(PROP, path)
