"""C15 - SM2 point arithmetic is complete; encodings round-trip and are strict."""
from .. import core, extract, ecpy as ec
from ..sm2gen import Gen, rb, b32, N, P, rscalar
from ..run import Check, generic_replay

PROP = "C15"
T256 = 1 << 256


def proj(rng, pt, z=None):
    """a projective representative (X, Y, Z) of an affine point (None = infinity)"""
    if pt is None:
        y = rng.randrange(1, P) if z is None else z
        return [b32(0), b32(y), b32(0)]
    if z is None:
        z = rng.choice([1, 1, 2, P - 1, rng.randrange(1, P)])
    return [b32(pt[0] * z % P), b32(pt[1] * z % P), b32(z)]


def gen(chk, tier):
    rng = chk.rng
    g = Gen(rng)
    q = tier == "quick"
    reps = 3 if q else 60
    for _ in range(reps):
        a = ec.mul(rscalar(rng))
        b = ec.mul(rscalar(rng))
        rel = [("generic", a, b), ("same_point", a, a), ("inverse", a, ec.neg(a)), ("p_plus_inf", a, None),
               ("inf_plus_q", None, b), ("inf_plus_inf", None, None), ("double_of", a, ec.add(a, a)),
               ("with_G", ec.G, a), ("G_plus_G", ec.G, ec.G), ("G_minus_G", ec.G, ec.neg(ec.G))]
        for name, p1, p2 in rel:
            for alias in ("none", "q=p1", "q=p2"):
                g.one("add_%s_%s" % (name, alias), "pt.add", p1=proj(rng, p1), p2=proj(rng, p2), alias=alias)
            if name in ("same_point", "inf_plus_inf", "G_plus_G"):
                g.one("add_%s_all" % name, "pt.add", p1=proj(rng, p1), p2=proj(rng, p1), alias="all")
        for name, p1 in (("generic", a), ("inf", None), ("G", ec.G)):
            for alias in ("none", "q=p"):
                g.one("double_%s_%s" % (name, alias), "pt.double", p1=proj(rng, p1), alias=alias)
                g.one("negate_%s_%s" % (name, alias), "pt.negate", p1=proj(rng, p1), alias=alias)
        g.one("select", "pt.select", p1=proj(rng, a), p2=proj(rng, b), cond=1)
        g.one("select", "pt.select", p1=proj(rng, a), p2=proj(rng, None), cond=0)
        # encodings
        for name, p1 in (("generic", a), ("inf", None)):
            g.one("bytes_" + name, "pt.bytes", p1=proj(rng, p1))
    # histories on the point register machine: objects live across operations (storage sharing /
    # modified operands show up at a later read); every register is re-checked after every step
    fns = ["add", "double", "negate", "set", "select"]
    for _ in range(12 if q else 300):
        k = g.scenario("register_history")
        names = ["A", "B", "C"]
        for nm in names:
            g.add(k, "ptm.new", r=nm, p1=proj(rng, rng.choice([ec.mul(rscalar(rng)), ec.G, None, ec.mul(2)])))
        for _ in range(rng.randrange(3, 9)):
            fn = rng.choice(fns)
            dst = rng.choice(names + ["D", "E"])
            a_, b_ = rng.choice(names), rng.choice(names)
            g.add(k, "ptm.op", fn=fn, dst=dst, a=a_, b=b_, cond=rng.randrange(2))
            if dst not in names:
                names.append(dst)
    # the specific shapes: result into a fresh receiver, then an in-place operation on result or operand
    for fn in ("negate", "set", "double", "add", "select"):
        for second in ("double", "add"):
            for target in ("dst", "a"):
                k = g.scenario("register_%s_then_inplace_%s_on_%s" % (fn, second, target))
                g.add(k, "ptm.new", r="A", p1=proj(rng, ec.mul(rscalar(rng))))
                g.add(k, "ptm.new", r="B", p1=proj(rng, ec.mul(rscalar(rng))))
                g.add(k, "ptm.op", fn=fn, dst="N", a="A", b="B", cond=1)
                t = "N" if target == "dst" else "A"
                g.add(k, "ptm.op", fn=second, dst=t, a=t, b="B", cond=0)
                g.add(k, "ptm.op", fn="add", dst="S", a="A", b="N", cond=0)
    # points whose affine coordinates have leading zero bytes (safe vs fast conversion, padding)
    x, found = 0, []
    while len(found) < (2 if q else 10):
        x += 1
        y = ec.lift_x(x)
        if y is not None:
            found.append((x, y))
    for pt in found:
        g.one("bytes_small_x", "pt.bytes", p1=proj(rng, pt))
    for _ in range(1 if q else 4):           # small y: search a few thousand multiples
        k = rscalar(rng)
        pt = ec.mul(k)
        for _ in range(3000 if not q else 600):
            if pt[1] < (1 << 248) or pt[0] < (1 << 248):
                g.one("bytes_leading_zero", "pt.bytes", p1=proj(rng, pt))
                break
            pt = ec.add(pt, ec.G)
    # decoding strictness
    a = ec.mul(rscalar(rng))
    enc = [4] + b32(a[0]) + b32(a[1])
    recv = proj(rng, ec.mul(rscalar(rng)))
    g.one("decode_valid", "pt.setbytes", b=enc, recv=recv)
    g.one("decode_infinity", "pt.setbytes", b=[0], recv=recv)
    for pre in (0, 1, 2, 3, 5, 6, 7, 255):
        g.one("decode_prefix_%d" % pre, "pt.setbytes", b=[pre] + enc[1:], recv=recv)
    for L in list(range(0, 71)) if not q else [0, 1, 2, 32, 33, 34, 64, 66, 70]:
        if L != 65:
            g.one("decode_length", "pt.setbytes", b=(enc + rb(rng, 10))[:L], recv=recv)
    g.one("decode_single_nonzero", "pt.setbytes", b=[4], recv=recv)
    g.one("decode_compressed_02", "pt.setbytes", b=[2] + b32(a[0]), recv=recv)
    g.one("decode_compressed_03", "pt.setbytes", b=[3] + b32(a[0]), recv=recv)
    g.one("decode_compressed_00", "pt.setbytes", b=[0] + b32(a[0]), recv=recv)
    for (xx, yy) in found[:2]:
        g.one("decode_small_x_valid", "pt.setbytes", b=[4] + b32(xx) + b32(yy), recv=recv)
        if xx + P < T256:
            g.one("decode_noncanonical_x", "pt.setbytes", b=[4] + b32(xx + P) + b32(yy), recv=recv)
    from ..sm2gen import limb_structured
    ny = 0
    for yv in [1, 2, 3] + [D - 1 for D in limb_structured(rng, 20 if q else 400, maxbits=224)]:
        if yv < 0 or yv + P >= T256:
            continue
        for xv in ec.xs_for_y(yv, rng)[:1]:
            g.one("decode_small_y_valid", "pt.setbytes", b=[4] + b32(xv) + b32(yv), recv=recv)
            g.one("decode_noncanonical_y", "pt.setbytes", b=[4] + b32(xv) + b32(yv + P), recv=recv)
            ny += 1
        if ny >= (6 if q else 200):
            break
    nx = 0
    for D in limb_structured(rng, 60 if q else 1500, maxbits=224):
        yD = ec.lift_x(D - 1)
        if yD is None:
            continue
        g.one("decode_structured_x_valid", "pt.setbytes", b=[4] + b32(D - 1) + b32(yD), recv=recv)
        g.one("decode_structured_noncanonical_x", "pt.setbytes", b=[4] + b32(D - 1 + P) + b32(yD), recv=recv)
        nx += 1
        if nx >= (6 if q else 200):
            break
    y00 = ec.lift_x(0)                      # b is a square: (0, +-sqrt b) are points, and x = p is their non-canonical twin
    if y00 is not None:
        for yy in (y00, P - y00):
            g.one("decode_x_zero_valid", "pt.setbytes", b=[4] + b32(0) + b32(yy), recv=recv)
            g.one("decode_noncanonical_x_equals_p", "pt.setbytes", b=[4] + b32(P) + b32(yy), recv=recv)
            g.one("decode_noncanonical_x_p_plus_1", "pt.setbytes", b=[4] + b32(P + 1) + b32(yy), recv=recv)
    g.one("decode_noncanonical_p_p", "pt.setbytes", b=[4] + b32(P) + b32(P), recv=recv)
    for bit in (rng.sample(range(8, 520), 6 if q else 200)):
        e2 = list(enc)
        e2[bit // 8] ^= 1 << (bit % 8)
        g.one("decode_off_curve", "pt.setbytes", b=e2, recv=recv)
    g.one("decode_zero_zero", "pt.setbytes", b=[4] + [0] * 64, recv=recv)
    return g.cmds


def keyfn(b):
    return b["why"].replace(": ", ".").replace(" ", "_")


def run(tier):
    chk = Check(PROP, tier)
    ex = extract.write_extracted(chk)
    branchy = [(n, ex[n]["control_flow"]) for n in ("add", "double") if ex[n].get("control_flow")]
    if branchy:
        # Add / Double are no longer straight-line formulas: the extracted-program model does not apply to them;
        # the recorded executions below still judge every relation class
        chk.notes.append("extracted-program model skipped: control flow inside %s" % branchy)
    else:
        for p in ((11, 13) if tier == "quick" else (11, 13, 23, 43)):
            chk.model("MC_Formulas", cfg="MC_Formulas_p%d.cfg" % p, timeout=3000)
    cmds = gen(chk, tier)
    cls_of = {c["sc"]: c["cls"] for c in cmds if c["op"] == "scenario"}

    def key(b):
        c = cls_of.get(b["sc"], "")
        return keyfn(b) + "." + c
    chk.exec_and_validate("T_EC", cmds, key, accel=True, families=("bits", "big"))
    chk.first_use("T_EC", cmds, key, accel=True, families=("bits", "big"))
    return chk.finish(
        "model_checking",
        "extracted programs: the Add/Double bodies parsed from the current tree (go/ast) are executed by TLC on toy "
        "curves for ALL pairs of points x ALL projective representatives x every receiver-aliasing pattern against the "
        "affine group law; traces: relation classes (generic, P=Q, P=-Q, P=O, Q=O, O+O, with G) x aliasing at 256 bits "
        "with random Z scaling, negate/select, safe vs fast encodings incl. leading-zero coordinates, decoding of every "
        "prefix/length class, non-canonical x and y (incl. x = p over (0, sqrt b), word-structured overshoots) and "
        "off-curve coordinates with receiver-unchanged check, a register machine of named points re-checked after every step",
        ["TLC; EC.tla (group axioms model-checked on a toy curve); accelerators compared with definitions every run",
         "256-bit points are sampled; completeness for all inputs rests on the extracted-program model at toy size"])


def replay(path):
    return generic_replay(PROP, path)
