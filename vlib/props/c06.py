"""C06 - SM4-GCM: Seal output equals NIST SP 800-38D GCM over SM4."""
from .. import core, gf
from ..run import Check, generic_replay

PROP = "C06"


def rb(rng, n):
    return [rng.randrange(256) for _ in range(n)]


def ladder_lengths(rng, tier):
    """Plaintext lengths covering every combination of the 256/128/64/32/16-byte kernels with
    and without a 1..15-byte tail (a = number of 256-byte iterations)."""
    out = []
    for a in (0, 1, 2) if tier == "quick" else (0, 1, 2, 3, 4):
        for combo in range(16):
            base = 256 * a + 16 * combo          # combo bits = 128/64/32/16 kernels
            out.append(base)
            out.append(base + rng.randrange(1, 16))
    return sorted(set(out))


def get_h(chk, key):
    evs = core.run_driver(chk.drv(), [dict(sc=0, op="scenario"), dict(sc=0, op="sm4.newcipher", h="c", key=key, asm=True),
                                       dict(sc=0, op="sm4.crypt", h="c", dec=False, src=[0] * 16, inplace=False)],
                          chk.rd, tag="geth")
    return int.from_bytes(bytes(evs[2]["out"]), "big")


def gen(chk, tier):
    rng, cmds, sc = chk.rng, [], [0]

    def seal(cls, key, nonce, aad, pt, tagsize=16, path="asm"):
        sc[0] += 1
        k = sc[0]
        cmds.append(dict(sc=k, op="scenario", cls=cls))
        cmds.append(dict(sc=k, op="gcm.aead", h="a", key=key, noncesize=len(nonce), tagsize=tagsize, path=path))
        cmds.append(dict(sc=k, op="gcm.seal", h="a", nonce=nonce, aad=aad, pt=pt, prefix=[], spare=-1,
                         alias="none", repeat=False, j="v"))

    key = rb(rng, 16)
    q = tier == "quick"
    # (1) plaintext length ladder on the fused path, aad in {0, 13, 16}
    pls = ladder_lengths(rng, tier) if q else list(range(0, 1101))
    for i, L in enumerate(pls):
        for alen in ([(0, 13, 16)[i % 3]] if q else (0, 13, 16)):
            seal("pt_ladder", key, rb(rng, 12), rb(rng, alen), rb(rng, L))
    # (2) aad lengths (1-way / 4-way GHASH, padding of the tail)
    als = ([0, 1, 15, 16, 17, 31, 32, 63, 64, 65, 111, 112, 127, 128, 129, 143, 144, 191, 192, 193, 255, 256, 257,
            300, 511, 512, 640, 1000, 1100] if q else list(range(0, 1101)))
    for i, alen in enumerate(als):
        for plen in ([(0, 17)[i % 2]] if q else (0, 17)):
            seal("aad_len", key, rb(rng, 12), rb(rng, alen), rb(rng, plen))
    # (3) nonce lengths (12 special-cased; >= 128 switches to 4-way)
    nls = ([1, 7, 8, 11, 13, 15, 16, 17, 31, 32, 33, 64, 100, 127, 128, 129, 143, 144, 160, 191, 192, 255, 256, 300]
           if q else [n for n in range(1, 301) if n != 12])
    for n in nls:
        seal("nonce_len", key, rb(rng, n), rb(rng, rng.choice([0, 5, 20])), rb(rng, rng.choice([0, 16, 40, 100])))
    # (4) tag sizes
    for ts in (12, 13, 14, 15, 16):
        seal("tag_size", key, rb(rng, 12), rb(rng, 20), rb(rng, 33), tagsize=ts)
        seal("tag_size", key, rb(rng, 16), rb(rng, 3), rb(rng, 5), tagsize=ts)
    # (5) counter wrap: nonces solved so that the 32-bit counter of J0 is 2^32 - j
    h = get_h(chk, key)
    js = [0, 1, 2, 3, 5, 9, 17] if q else list(range(0, 21))
    for j in js:
        for nbytes in ((16,) if q and j % 2 else (16, 32, 144)):
            ctr = (0x100000000 - j) & 0xFFFFFFFF
            target = (rng.getrandbits(96) << 32) | ctr
            nonce = gf.solve_nonce(h, nbytes, target, rng)
            L = rng.choice([16 * (j + 3), 16 * (j + 1) + 7, 300])
            seal("counter_wrap", key, nonce, rb(rng, 9), rb(rng, L))
    # (6) the other implementation paths on a sample of each class
    other = []
    for L in (ladder_lengths(rng, "quick")[::6] if q else range(0, 1101, 7)):
        other.append((rb(rng, 12), rb(rng, rng.choice([0, 13, 130])), rb(rng, L), 16))
    for n in ([1, 16, 128, 300] if q else range(1, 301, 9)):
        if n != 12:
            other.append((rb(rng, n), rb(rng, 5), rb(rng, 37), 16))
    other.append((rb(rng, 12), rb(rng, 5), rb(rng, 50), 12))
    for j in (1, 2):
        target = (rng.getrandbits(96) << 32) | (0x100000000 - j)
        other.append((gf.solve_nonce(h, 16, target, rng), [], rb(rng, 80), 16))
    for (nonce, aad, pt, ts) in other:
        for path in ("generic", "wrapped"):
            seal("path_" + path, key, nonce, aad, pt, tagsize=ts, path=path)
    # (6b) lengths around 2^16 (a 16- or 32-bit truncation of a length shows only there)
    for n in ([65548] if q else [65535, 65536, 65537, 65548, 131084]):
        seal("nonce_len_16bit", key, rb(rng, n), rb(rng, 3), rb(rng, 20))
    for al in ([65536 + 5] if q else [65535, 65536, 65536 + 5, 65536 + 128]):
        seal("aad_len_16bit", key, rb(rng, 12), rb(rng, al), rb(rng, 7))
    for tl in ([] if q else [65535, 65536, 65536 + 21, 65536 + 256, 131072 + 3]):
        seal("text_len_16bit", key, rb(rng, 12), rb(rng, 3), rb(rng, tl))
    # (8) sessions: ONE AEAD object (and a second one on another key, interleaved) used for a sequence of calls of
    # mixed length classes - long then short, 4-way then 1-way GHASH, 12-byte then long nonces - so that anything a
    # call leaves behind (object or package-level scratch, cached powers of H, counters) meets a different shape
    shapes = [(12, 0, 0), (12, 0, 1), (12, 5, 15), (12, 16, 16), (12, 13, 17), (12, 0, 64), (12, 130, 100), (12, 64, 255),
              (12, 3, 256), (12, 0, 300), (16, 5, 33), (1, 0, 7), (128, 20, 129), (300, 1, 2), (12, 257, 0), (12, 0, 1024)]
    for si in range(6 if q else 800):
        sc[0] += 1
        k = sc[0]
        cmds.append(dict(sc=k, op="scenario", cls="session"))
        keys = {"a": rb(rng, 16), "b": rb(rng, 16)}
        ts = rng.choice([16, 16, 12])
        made = set()
        for ci in range(8 if q else 12):
            hname = rng.choice(["a", "a", "b"])
            (nl, al, pl) = rng.choice(shapes)
            if ("%s%d" % (hname, nl)) not in made:          # one object per (key, nonce size)
                made.add("%s%d" % (hname, nl))
                cmds.append(dict(sc=k, op="gcm.aead", h="%s%d" % (hname, nl), key=keys[hname], noncesize=nl, tagsize=ts,
                                 path="asm"))
            cmds.append(dict(sc=k, op="gcm.seal", h="%s%d" % (hname, nl), nonce=rb(rng, nl), aad=rb(rng, al), pt=rb(rng, pl),
                             prefix=[], spare=-1, alias="none", repeat=False, j="v%d" % ci))
    # (6c) additional data of 2^29 bytes and more: its BIT length no longer fits 32 bits.  The string is all zero and is
    # never materialised on the specification side (GCMG!SealZeroAad, lemma checked in MC_GcmToy); the real code
    # hashes the real 512 MiB
    for nz in ([(1 << 29) + 5] if q else [(1 << 29) - 1, 1 << 29, (1 << 29) + 5, (1 << 30) + 3]):
        sc[0] += 1
        k = sc[0]
        cmds.append(dict(sc=k, op="scenario", cls="aad_len_32bit"))
        cmds.append(dict(sc=k, op="gcm.aead", h="a", key=key, noncesize=12, tagsize=16, path="asm"))
        cmds.append(dict(sc=k, op="gcm.seal", h="a", nonce=rb(rng, 12), aad=[], aad_zeros=nz, pt=rb(rng, 7), prefix=[], spare=-1,
                         alias="none", repeat=False, j="v"))
    # (6d) a nonce of 2^29 bytes and more (all zero; GCMG!SealZeroIv): the bit length in J0's final GHASH block
    for nz in ([(1 << 29) + 17] if q else [(1 << 29) - 1, 1 << 29, (1 << 29) + 17]):
        sc[0] += 1
        k = sc[0]
        cmds.append(dict(sc=k, op="scenario", cls="nonce_len_32bit"))
        cmds.append(dict(sc=k, op="gcm.aead", h="a", key=key, noncesize=nz, tagsize=16, path="asm"))
        cmds.append(dict(sc=k, op="gcm.seal", h="a", nonce=[], nonce_zeros=nz, aad=rb(rng, 5), pt=rb(rng, 21), prefix=[], spare=-1,
                         alias="none", repeat=False, j="v"))
    # (7) seeded random, several keys
    for _ in range(20 if q else 6000):
        k2 = rb(rng, 16)
        n = rng.choice([12, 12, rng.randrange(1, 301)])
        seal("random", k2, rb(rng, n), rb(rng, rng.randrange(0, 300)), rb(rng, rng.randrange(0, 600)))
    return cmds


def keyfn(b):
    ev = b["ev"]
    if ev["op"] != "gcm.seal":
        return ev["op"] + "." + b["why"].split(": ")[1].replace(" ", "_")
    return "gcm.seal.%s" % b["why"].split(": ")[1].replace(" ", "_")


def cost(g):
    c = 0
    for e in g:
        c += 2000 + 60 * (len(e.get("pt", [])) + len(e.get("aad", [])) // 2 + len(e.get("nonce", [])) // 2
                          + len(e.get("ct", [])))
    return c


def run(tier):
    chk = Check(PROP, tier)
    chk.model("MC_Vectors")
    chk.model("MC_GcmToy", cfg="MC_GcmToy_quick.cfg" if tier == "quick" else "MC_GcmToy.cfg", timeout=3000)
    cmds_all = gen(chk, tier)
    chk.exec_and_validate("T_GCM", cmds_all, keyfn, cost=cost, accel=True, pure_budget=14000000)
    chk.first_use("T_GCM", cmds_all, keyfn, count=8, accel=True)
    # the fourth path: the arm64 kernel-plus-Go-glue code, transplanted onto the amd64 kernels
    gcmds = [dict(c) for c in cmds_all if c.get("path", "asm") == "asm"]
    keep = set(c["sc"] for c in gcmds if c["op"] == "gcm.aead")
    gcmds = [c for c in gcmds if c["sc"] in keep]
    if tier == "quick":
        scs = sorted(keep)
        sel = set(scs[::2])
        gcmds = [c for c in gcmds if c["sc"] in sel]
    for c in gcmds:
        if c["op"] == "scenario":
            c["cls"] = "glue_" + c.get("cls", "")

    def gkey(b):
        return "glue." + keyfn(b)
    chk.exec_and_validate("T_GCM", gcmds, gkey, cost=cost, accel=True, pure_budget=0, tag="glue", variant="glue")
    return chk.finish(
        "model_checking",
        "Seal through the public AEAD on three implementation paths (fused assembly, standard-library generic GCM over "
        "the portable cipher, generic GCM over the accelerated block): plaintext lengths covering every combination of "
        "the 256/128/64/32/16-byte kernels with and without a tail, aad and nonce lengths across the 1-way/4-way GHASH "
        "thresholds, tag sizes 12..16, nonces solved (GF(2^128)) so that the initial 32-bit counter is 2^32-j, seeded "
        "random; TLC recomputes ciphertext and tag with the pure TLA+ GCM over the pure TLA+ SM4",
        ["TLC; GCM.tla validated on every run by GCM-spec test case 2 and the RFC 8998 SM4-GCM vector",
         "lengths bounded (text/aad <= 1100, nonce <= 300)",
         "the arm64 Go glue (sm4_gcm_arm64.go of the current tree) is exercised transplanted onto the amd64 kernels "
         "(go build -overlay; the five NEON xorN routines replaced by Go loops); the NEON kernels themselves cannot "
         "be executed here"])


def replay(path):
    return generic_replay(PROP, path)
