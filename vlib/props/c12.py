"""C12 - SM2 keys: generated and accepted keys are exactly the valid ones."""
from .. import core, sm2gen, ecpy as ec
from ..sm2gen import Gen, rb, b32, N, P, rscalar
from ..run import Check, generic_replay

PROP = "C12"
T256 = 1 << 256


def gen(chk, tier):
    rng = chk.rng
    g = Gen(rng)
    q = tier == "quick"
    bad = [0, N - 1, N, N + 1, T256 - 1]
    # key generation: rejected candidates (each kind, alone and in sequences) before a valid one
    import itertools
    seqs = [[]] + [[b] for b in bad] + [list(p) for p in itertools.permutations(bad, 2)]
    if not q:
        seqs += [list(p) for p in itertools.permutations(bad, 3)]
    else:
        seqs = seqs[:6] + rng.sample(seqs[6:], 8) + [[0, N - 1, N, T256 - 1]]
    for sq in seqs:
        good = rng.choice([1, N - 2, rscalar(rng)])
        g.one("genkey_after_%d_rejected" % len(sq), "sm2.genkey", nilreader=False,
              script=sm2gen.script_of(sq + [good, rscalar(rng)]))
    for _ in range(10 if q else 2000):
        g.one("genkey_random", "sm2.genkey", nilreader=False, script=sm2gen.script_of([rng.getrandbits(256), rscalar(rng)]))
    g.one("genkey_nil", "sm2.genkey", nilreader=True, script=[])
    # very long runs of rejected candidates before a valid one (a retry limit is not part of the property)
    for n_, cand in ((5000, T256 - 1), (70000, 0), (70000, N - 1)):
        g.one("genkey_long_rejected_run", "sm2.genkey", nilreader=False, run=dict(d=b32(cand), n=n_),
              script=sm2gen.script_of([rscalar(rng), rscalar(rng)]))
    # sources that deliver fewer than 32 bytes per Read (one byte at a time, ragged, half units) and
    # streams that end in the middle of a candidate
    for _ in range(6 if q else 60):
        stream = b32(rng.choice([0, N - 1, rscalar(rng)])) + b32(rscalar(rng)) + b32(rscalar(rng))
        for chunk in (1, 16, 31, 33):
            script, pos = [], 0
            while pos < len(stream):
                L = chunk if chunk != 31 else rng.choice([1, 7, 31])
                script.append(dict(d=stream[pos:pos + L], err=""))
                pos += L
            g.one("genkey_short_reads", "sm2.genkey", nilreader=False, script=script)
        g.one("genkey_stream_ends_mid_candidate", "sm2.genkey", nilreader=False,
              script=[dict(d=b32(0) + b32(rscalar(rng))[:rng.randrange(1, 32)], err="")])
    # private-key test
    vals = [0, 1, 2, N - 3, N - 2, N - 1, N, N + 1, T256 - 1, 1 << 255, (1 << 248) - 1, 1 << 248]
    vals += [rng.getrandbits(256) for _ in range(10 if q else 3000)]
    # word-structured values on both sides of the bound (see sm2gen.limb_structured)
    from ..sm2gen import limb_structured
    st = limb_structured(rng, 12 if q else 600)
    vals += [v for v in st] + [N - 2 + v for v in limb_structured(rng, 12 if q else 600, maxbits=224)]
    for v in st[:6 if q else 100]:
        g.one("genkey_structured", "sm2.genkey", nilreader=False, script=sm2gen.script_of([v, rscalar(rng), rscalar(rng)]))
        g.one("derive_structured", "sm2.derivepublic", priv=b32(v))
    for v in limb_structured(rng, 6 if q else 100, maxbits=224):
        g.one("genkey_structured_over", "sm2.genkey", nilreader=False,
              script=sm2gen.script_of([N - 2 + v, rscalar(rng), rscalar(rng)]))
        g.one("derive_structured_over", "sm2.derivepublic", priv=b32(N - 2 + v))
    for v in vals:
        g.one("testpriv_32", "sm2.testpriv", priv=b32(v))
    for L in (0, 1, 16, 31):
        for v in (0, 1, (1 << (8 * L)) - 1 if L else 0):
            g.one("testpriv_short", "sm2.testpriv", priv=list(v.to_bytes(L, "big")) if L else [])
    for L in (33, 40):
        g.one("testpriv_long", "sm2.testpriv", priv=[0] * (L - 32) + b32(5))
        g.one("testpriv_long", "sm2.testpriv", priv=rb(rng, L))
    # public-key derivation
    for v in [0, 1, 2, N - 2, N - 1, N, N + 1, T256 - 1] + [rscalar(rng) for _ in range(6 if q else 500)]:
        g.one("derive_32", "sm2.derivepublic", priv=b32(v))
    for L in (0, 1, 31, 33):
        g.one("derive_len_%d" % L, "sm2.derivepublic", priv=rb(rng, L))
    # on-curve test
    for _ in range(8 if q else 400):
        pt = ec.mul(rscalar(rng))
        x, y = b32(pt[0]), b32(pt[1])
        g.one("curve_on", "sm2.checkoncurve", x=x, y=y)
        bit = rng.randrange(256)
        y2 = list(y); y2[bit // 8] ^= 1 << (bit % 8)
        g.one("curve_off_by_bit", "sm2.checkoncurve", x=x, y=y2)
        x2 = list(x); x2[bit // 8] ^= 1 << (bit % 8)
        g.one("curve_off_by_bit", "sm2.checkoncurve", x=x2, y=y)
        g.one("curve_neg", "sm2.checkoncurve", x=x, y=b32(P - pt[1]))
        g.one("curve_swapped", "sm2.checkoncurve", x=y, y=x)
    xs, x = [], 0
    while len(xs) < 4:
        x += 1
        y = ec.lift_x(x)
        if y is not None:
            xs.append((x, y))
    for (x, y) in xs:
        g.one("curve_small_x", "sm2.checkoncurve", x=b32(x), y=b32(y))
        g.one("curve_noncanonical", "sm2.checkoncurve", x=b32(x + P), y=b32(y))
    nk = 0
    for D in limb_structured(rng, 60 if q else 1500, maxbits=224):
        yD = ec.lift_x(D - 1)
        if yD is None:
            continue
        g.one("curve_structured_x", "sm2.checkoncurve", x=b32(D - 1), y=b32(yD))
        g.one("curve_structured_noncanonical", "sm2.checkoncurve", x=b32(D - 1 + P), y=b32(yD))
        nk += 1
        if nk >= (8 if q else 300):
            break
    ny = 0
    for yv in [1, 2, 3, 5, 7] + [D - 1 for D in limb_structured(rng, 20 if q else 400, maxbits=224)]:
        if yv < 0 or yv + P >= T256:
            continue
        for xv in ec.xs_for_y(yv, rng)[:1]:
            g.one("curve_small_y", "sm2.checkoncurve", x=b32(xv), y=b32(yv))
            g.one("curve_noncanonical_y", "sm2.checkoncurve", x=b32(xv), y=b32(yv + P))
            ny += 1
        if ny >= (8 if q else 200):
            break
    y0 = ec.lift_x(0)
    if y0 is not None:
        g.one("curve_x_zero", "sm2.checkoncurve", x=b32(0), y=b32(y0))
        g.one("curve_noncanonical", "sm2.checkoncurve", x=b32(P), y=b32(y0))
    for (lx, ly) in ((31, 32), (32, 31), (33, 32), (0, 0), (32, 64)):
        g.one("curve_length", "sm2.checkoncurve", x=rb(rng, lx), y=rb(rng, ly))
    # wrong lengths that compensate each other, on a real point (a test of the total length accepts these)
    ptc = ec.mul(rscalar(rng))
    xb, yb = b32(ptc[0]), b32(ptc[1])
    for (xx, yy) in ((xb[1:], [0] + yb), ([0] + xb, yb[1:]), (xb + yb, []), ([], xb + yb), (xb[2:], [0, 0] + yb), (xb + yb[:1], yb[1:])):
        g.one("curve_length_pair", "sm2.checkoncurve", x=xx, y=yy)
    g.one("curve_zero", "sm2.checkoncurve", x=b32(0), y=b32(0))
    return g.cmds


def keyfn(b):
    ev, why = b["ev"], b["why"]
    k = why.replace(": ", ".").replace(" ", "_").replace("[", "").replace("]", "").replace(",", "_")
    if ev["op"] in ("sm2.derivepublic", "sm2.testpriv"):
        v = int.from_bytes(bytes(ev.get("priv", [])), "big")
        L = len(ev.get("priv", []))
        k += ".len%s.%s" % ("32" if L == 32 else "lt32" if L < 32 else "gt32",
                            "multiple_of_n" if v % N == 0 else "other")
    if ev["op"] == "sm2.genkey" and "rejection rule" in why:
        consumed = sum(r[1] for r in ev.get("reads", []))
        idx = consumed // 32 - 1
        if 0 <= idx < len(ev["script"]):
            v = int.from_bytes(bytes(ev["script"][idx]["d"]), "big")
            k += ".accepted_" + ("zero" if v == 0 else "n_minus_1" if v == N - 1 else "ge_n" if v >= N else "valid")
    return k


def run(tier):
    chk = Check(PROP, tier)
    chk.model("MC_SM2Toy", cfg="MC_SM2Toy.cfg" if tier == "thorough" else "MC_SM2Toy_quick.cfg")
    chk.model("MC_Reader", cfg="MC_Reader.cfg" if tier == "quick" else "MC_Reader_thorough.cfg", timeout=3000)
    cmds_ = gen(chk, tier)
    chk.exec_and_validate("T_SM2", cmds_, keyfn, accel=True, families=("bits", "big"))
    chk.first_use("T_SM2", cmds_, keyfn, accel=True, families=("bits", "big"))
    return chk.finish(
        "model_checking",
        "GenerateKey on streams whose first candidates are 0, n-1, n, n+1, 2^256-1 in every order of up to two "
        "(thorough: three) before a valid one; TestPrivateKey on boundary and random 32-byte values and on shorter / "
        "longer encodings; DerivePublic on 0, 1, n-2, n-1, n, n+1, 2^256-1 and other lengths; CheckOnCurve on curve "
        "points, one-bit neighbours, negated/swapped, small-x and small-y points and their non-canonical x + p / y + p "
        "forms, word-structured keys and coordinates on both sides of the bounds, short-read sources, wrong lengths; "
        "TLC recomputes key, [d]G, bytes consumed and every verdict with modules SM2/EC/SignFlow/Reader",
        ["TLC; SM2/EC model-checked on a toy curve; SignFlow/Reader model-checked in MC_Reader",
         "BigNat/EC accelerators compared with the TLA+ definitions on every run"])


def replay(path):
    return generic_replay(PROP, path)
