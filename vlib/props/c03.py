"""C03 - SM2: verification accepts exactly the signatures the standard accepts."""
from .. import core, sm2gen, ecpy as ec
from ..sm2gen import Gen, rb, b32, N, P, rscalar
from ..run import Check, generic_replay

PROP = "C03"
T256 = 1 << 256


def forged(d_or_pt, s, t):
    """(r, e) so that the verification EQUATION holds for (s, t) under the public key:
    R = [s]G + [t]P, r = t - s, e = r - x_R.  Returns (px, py, e, r, s, R)."""
    pt = ec.mul(d_or_pt) if isinstance(d_or_pt, int) else d_or_pt
    R = ec.add(ec.mul(s), ec.mul(t, pt))
    r = (t - s) % N
    xr = R[0] if R else 0
    return pt, (r - xr) % N, r, R


def flipbit(b, bit):
    o = list(b)
    o[bit // 8] ^= 1 << (7 - bit % 8)
    return o


def gen(chk, tier):
    rng = chk.rng
    g = Gen(rng)
    q = tier == "quick"

    def verify(cls, px, py, e, r, s, kind="hashed"):
        g.one(cls, "sm2.verify", kind=kind, pubx=px, puby=py, e=e, r=r, s=s)

    nbase = 6 if q else 300
    for i in range(nbase):
        d = rscalar(rng)
        s, t = rscalar(rng), rscalar(rng)
        pt, e, r, R = forged(d, s, t)
        px, py = b32(pt[0]), b32(pt[1])
        if r == 0 or (r + s) % N != t or R is None:
            continue
        # valid: equation holds and all side conditions hold
        verify("valid", px, py, b32(e), b32(r), b32(s))
        # every single-bit flip (quick: a seeded sample) of each argument
        args = [px, py, b32(e), b32(r), b32(s)]
        bits = range(256) if not q else sorted(rng.sample(range(256), 5 if i else 24))
        for ai, name in enumerate(("px", "py", "e", "r", "s")):
            for bit in bits:
                a2 = [list(x) for x in args]
                a2[ai] = flipbit(a2[ai], bit)
                verify("bitflip_" + name, *a2)
        # lengths other than 32 for each argument
        if i < 3 or not q:
            for ai, name in enumerate(("px", "py", "e", "r", "s")):
                for L in (0, 1, 31, 33, 64):
                    a2 = [list(x) for x in args]
                    a2[ai] = (a2[ai] + rb(rng, 64))[:L] if L > 32 else a2[ai][32 - L:]
                    verify("length_" + name, *a2)
    # tiny t = (r + s) mod n and tiny s (valid triples, and the same with e changed): the double-scalar
    # multiplication sees scalars whose recoding has only a few low digits - its first iterations, the skip logic and
    # the interleaved comb rows are exercised nowhere else (honest signatures have t < 2^12 with probability 2^-244)
    small = [1, 2, 3, 5, 17, 255, 1000, 4095, 4096, 8191, 8192, 1 << 13, (1 << 14) - 1, 1 << 16, (1 << 20) + 1]
    for tv in (small if not q else small[:10]):
        d = rscalar(rng)
        s_ = rscalar(rng)
        pt, e, r, R = forged(d, s_, tv)
        if r and R is not None:
            verify("tiny_t_valid", b32(pt[0]), b32(pt[1]), b32(e), b32(r), b32(s_))
            verify("tiny_t_wrong_e", b32(pt[0]), b32(pt[1]), b32((e + 1) % N), b32(r), b32(s_))
            pt2 = ec.mul(rscalar(rng))
            verify("tiny_t_wrong_key", b32(pt2[0]), b32(pt2[1]), b32(e), b32(r), b32(s_))
        t_ = rscalar(rng)
        pt, e, r, R = forged(d, tv, t_)            # tiny s
        if r and R is not None:
            verify("tiny_s_valid", b32(pt[0]), b32(pt[1]), b32(e), b32(r), b32(tv))
            verify("tiny_s_wrong_e", b32(pt[0]), b32(pt[1]), b32((e + 1) % N), b32(r), b32(tv))
        pt, e, r, R = forged(d, tv, small[(small.index(tv) + 3) % len(small)])      # both tiny
        if r and R is not None:
            verify("tiny_s_t_valid", b32(pt[0]), b32(pt[1]), b32(e), b32(r), b32(tv))
    # TWO arguments with wrong lengths that compensate each other (31 + 33, 30 + 34, 0 + 64, X||Y in one argument):
    # a length test on the total, or on a concatenation, accepts these
    d = rscalar(rng)
    s_, t_ = rscalar(rng), rscalar(rng)
    pt, e, r, R = forged(d, s_, t_)
    args = [b32(pt[0]), b32(pt[1]), b32(e), b32(r), b32(s_)]
    names = ("px", "py", "e", "r", "s")
    for i in range(5):
        for j in range(5):
            if i == j:
                continue
            for cut in ((1, 2, 32) if not q or (i + j) % 2 else (1, 32)):
                a2 = [list(x) for x in args]
                if cut == 32:                       # argument i carries both values, argument j is empty
                    a2[i] = a2[i] + a2[j]
                    a2[j] = []
                else:                               # i loses its first bytes (leading zeros stripped or not), j gains zeros in front
                    a2[i] = a2[i][cut:]
                    a2[j] = [0] * cut + a2[j]
                verify("length_pair_%s_%s" % (names[i], names[j]), *a2)
    # forged triples satisfying the equation while violating exactly one side condition
    for _ in range(3 if q else 40):
        d = rscalar(rng)
        # r = 0: t = s
        s = rscalar(rng)
        pt, e, r, R = forged(d, s, s)
        verify("forged_r_zero", b32(pt[0]), b32(pt[1]), b32(e), b32(0), b32(s))
        # s = 0: R = [t]P
        t = rscalar(rng)
        pt, e, r, R = forged(d, 0, t)
        verify("forged_s_zero", b32(pt[0]), b32(pt[1]), b32(e), b32(r), b32(0))
        # r >= n (r + n fits in 32 bytes only for small r)
        r0 = rng.randrange(1, T256 - N)
        s = rscalar(rng)
        pt, e, r, R = forged(d, s, (r0 + s) % N)
        verify("forged_r_ge_n", b32(pt[0]), b32(pt[1]), b32(e), b32(r0 + N), b32(s))
        verify("valid_small_r", b32(pt[0]), b32(pt[1]), b32(e), b32(r0), b32(s))
        # s >= n
        s0 = rng.randrange(1, T256 - N)
        t = rscalar(rng)
        pt, e, r, R = forged(d, s0, t)
        verify("forged_s_ge_n", b32(pt[0]), b32(pt[1]), b32(e), b32(r), b32(s0 + N))
        # r + s = 0 mod n (t = 0): R = [s]G
        s = rscalar(rng)
        pt, e, r, R = forged(d, s, 0)
        verify("forged_t_zero", b32(pt[0]), b32(pt[1]), b32(e), b32(r), b32(s))
        # R = O: s = -t d
        t = rscalar(rng)
        s = (-t * d) % N
        pt, e, r, R = forged(d, s, t)
        assert R is None
        if r:
            verify("forged_R_infinity", b32(pt[0]), b32(pt[1]), b32(e), b32(r), b32(s))
        # r = n, s = n, r = s = n - 1 extremes
        pt = ec.mul(d)
        verify("extreme", b32(pt[0]), b32(pt[1]), rb(rng, 32), b32(N), b32(1))
        verify("extreme", b32(pt[0]), b32(pt[1]), rb(rng, 32), b32(1), b32(N))
        verify("extreme", b32(pt[0]), b32(pt[1]), rb(rng, 32), b32(T256 - 1), b32(T256 - 1))
    # word-structured overshoots: r = n - 1 + D, s = n - 1 + D, x = p - 1 + D with D a value whose machine
    # limbs have zero halves / single bits (a word-wise range comparison with a narrow accumulator, or one
    # that looks at part of each limb, takes these for "equal"); the equation holds for the reduced value
    from ..sm2gen import limb_structured
    for D in limb_structured(rng, 10 if q else 300, maxbits=224):
        if D < 2:
            continue
        d = rscalar(rng)
        r0 = D - 1
        s = rscalar(rng)
        pt, e, r, R = forged(d, s, (r0 + s) % N)
        if R is not None and (r0 + s) % N:
            verify("forged_r_structured_overshoot", b32(pt[0]), b32(pt[1]), b32(e), b32(r0 + N), b32(s))
        s0 = D - 1
        t = rscalar(rng)
        pt, e, r, R = forged(d, s0, t)
        if R is not None and r:
            verify("forged_s_structured_overshoot", b32(pt[0]), b32(pt[1]), b32(e), b32(r), b32(s0 + N))
    nk = 0
    for D in limb_structured(rng, 60 if q else 1500, maxbits=224):
        x0 = D - 1
        y0 = ec.lift_x(x0) if x0 >= 0 else None
        if y0 is None:
            continue
        s, t = rscalar(rng), rscalar(rng)
        pt, e, r, R = forged((x0, y0), s, t)
        if r == 0 or R is None:
            continue
        verify("key_structured_x_valid", b32(x0), b32(y0), b32(e), b32(r), b32(s))
        verify("key_structured_noncanonical_x", b32(x0 + P), b32(y0), b32(e), b32(r), b32(s))
        nk += 1
        if nk >= (8 if q else 300):
            break
    # R chosen FIRST: x_R in the gap [n, p) (the reduction of e + x_R matters), x_R tiny, x_R = p - small;
    # P = t^-1 (R - [s]G) makes (e, r, s) valid under P
    def lift_from(x0, step):
        x = x0
        while True:
            y = ec.lift_x(x)
            if y is not None:
                return (x, y)
            x += step
    targets = [lift_from(N, 1), lift_from(N + 1000, 1), lift_from((N + P) // 2, 1), lift_from(P - 1, -1), lift_from(P - 1000, -1),
               lift_from(1, 1), lift_from(N - 1, -1)]
    for R in targets:
        for _ in range(2 if q else 10):
            s_, t_ = rscalar(rng), rscalar(rng)
            Ppt = ec.mul(ec.inv_n(t_), ec.add(R, ec.neg(ec.mul(s_))))
            if Ppt is None:
                continue
            r_ = (t_ - s_) % N
            if r_ == 0:
                continue
            e_ = (r_ - R[0]) % N
            cls = "xR_in_gap_n_p" if R[0] >= N else "xR_special"
            verify(cls + "_valid", b32(Ppt[0]), b32(Ppt[1]), b32(e_), b32(r_), b32(s_))
            verify(cls + "_e_plus_1", b32(Ppt[0]), b32(Ppt[1]), b32((e_ + 1) % T256), b32(r_), b32(s_))
            # the same relation with e not reduced (e + n still fits when e is small)
            if e_ + N < T256:
                verify(cls + "_e_unreduced", b32(Ppt[0]), b32(Ppt[1]), b32(e_ + N), b32(r_), b32(s_))
    # e chosen FIRST as well: digests in [n, 2^256) are legal inputs, so e + x_R ranges up to about 2^257 > 3n/... - one
    # conditional subtraction does not reduce it.  r = (e + x_R) mod n, s random, P = t^-1 (R - [s]G).
    for R in targets:
        xr = R[0]
        es = [T256 - 1, T256 - 2, N, N + 1, N + rng.randrange(2, T256 - N), (2 * N - xr) % T256, (2 * N - xr + 1) % T256,
              (2 * N - xr - 1) % T256, (3 * N - xr) % T256 if 3 * N - xr < T256 else N - 1]
        for e_ in (es if not q else es[:2] + es[5:7]):
            r_ = (e_ + xr) % N
            s_ = rscalar(rng)
            t_ = (r_ + s_) % N
            if r_ == 0 or t_ == 0:
                continue
            Ppt = ec.mul(ec.inv_n(t_), ec.add(R, ec.neg(ec.mul(s_))))
            if Ppt is None:
                continue
            cls = "e_first_sum_ge_2n" if e_ + xr >= 2 * N else "e_first"
            verify(cls + "_valid", b32(Ppt[0]), b32(Ppt[1]), b32(e_), b32(r_), b32(s_))
            verify(cls + "_r_plus_1", b32(Ppt[0]), b32(Ppt[1]), b32(e_), b32((r_ + 1) % N), b32(s_))
    # an INVALID public key presented repeatedly with a triple that would verify if the key were the point at infinity
    # (R = [s]G + [t]O = [s]G, so r = (e + x([s]G)) mod n): whatever a first refusal leaves behind (a cache entry, a
    # placeholder) must not make the second or third presentation succeed
    for _ in range(3 if q else 30):
        s_ = rscalar(rng)
        e_ = rng.getrandbits(256)
        xs = ec.mul(s_)[0]
        r_ = (e_ + xs) % N
        if r_ == 0 or (r_ + s_) % N == 0:
            continue
        good = ec.mul(rscalar(rng))
        bads = [(b32(good[0]), b32(good[1] ^ 1)), (b32(0), b32(0)), (b32(good[0] + 1), b32(good[1])),
                (b32(good[1]), b32(good[0]))]
        for (bx, by) in bads:
            k = g.scenario("invalid_key_repeated_forged_for_infinity")
            for rep in range(3):
                g.add(k, "sm2.verify", kind="hashed", pubx=list(bx), puby=list(by), e=b32(e_), r=b32(r_), s=b32(s_))
            # and a valid key after the refusals: still judged on its own
            s2, t2 = rscalar(rng), rscalar(rng)
            pt, e2, r2, R2 = forged(good, s2, t2)
            if r2 and R2 is not None:
                g.add(k, "sm2.verify", kind="hashed", pubx=b32(pt[0]), puby=b32(pt[1]), e=b32(e2), r=b32(r2), s=b32(s2))
    # public key classes: non-canonical coordinate (x + p), off curve, zero point, (0, sqrt b)
    x = 0
    found = []
    while len(found) < (3 if q else 12):
        x += 1
        y = ec.lift_x(x)
        if y is not None and x + P < T256:
            found.append((x, y))
    for (x, y) in found:
        s, t = rscalar(rng), rscalar(rng)
        pt, e, r, R = forged((x, y), s, t)
        if r == 0 or R is None:
            continue
        verify("key_small_x_valid", b32(x), b32(y), b32(e), b32(r), b32(s))
        verify("key_noncanonical_x", b32(x + P), b32(y), b32(e), b32(r), b32(s))
        verify("key_negated_y_wrong_sig", b32(x), b32(P - y), b32(e), b32(r), b32(s))
        verify("key_off_curve", b32(x), b32((y + 1) % P), b32(e), b32(r), b32(s))
    # the same for y: points with a small / word-structured y (roots of the cubic in x), presented as y + p
    ny = 0
    for yv in [1, 2, 3, 5, 7] + [D - 1 for D in limb_structured(rng, 20 if q else 400, maxbits=224)]:
        if yv < 0 or yv + P >= T256:
            continue
        for xv in ec.xs_for_y(yv, rng)[:1]:
            s, t = rscalar(rng), rscalar(rng)
            pt, e, r, R = forged((xv, yv), s, t)
            if r == 0 or R is None:
                continue
            verify("key_small_y_valid", b32(xv), b32(yv), b32(e), b32(r), b32(s))
            verify("key_noncanonical_y", b32(xv), b32(yv + P), b32(e), b32(r), b32(s))
            ny += 1
        if ny >= (8 if q else 200):
            break
    y0 = ec.lift_x(0)
    if y0 is not None:
        s, t = rscalar(rng), rscalar(rng)
        pt, e, r, R = forged((0, y0), s, t)
        verify("key_x_zero_valid", b32(0), b32(y0), b32(e), b32(r), b32(s))
        verify("key_noncanonical_x", b32(P), b32(y0), b32(e), b32(r), b32(s))
    verify("key_zero_zero", b32(0), b32(0), rb(rng, 32), b32(1), b32(1))
    verify("key_p_p", b32(P), b32(P), rb(rng, 32), b32(1), b32(1))
    # id- and za-level entry points on invalid signatures
    d = rscalar(rng)
    pt = ec.mul(d)
    for kind in ("za", "id"):
        for _ in range(3):
            kw = dict(kind=kind, pubx=b32(pt[0]), puby=b32(pt[1]), r=b32(rscalar(rng)), s=b32(rscalar(rng)),
                      msg=rb(rng, 20))
            if kind == "za":
                kw["za"] = rb(rng, 32)
            else:
                kw["id"] = rb(rng, 16)
            g.one("wrapper_invalid_" + kind, "sm2.verify", **kw)
        g.one("wrapper_badlen_" + kind, "sm2.verify", kind=kind, pubx=b32(pt[0])[:31], puby=b32(pt[1]), r=b32(1), s=b32(1),
              msg=[], **({"za": rb(rng, 32)} if kind == "za" else {"id": []}))
    return g.cmds


def keyfn(b):
    ev, why = b["ev"], b["why"]
    cls = ""
    return why.replace(": ", ".").replace(" ", "_")


def run(tier):
    chk = Check(PROP, tier)
    chk.model("MC_SM2Toy", cfg="MC_SM2Toy.cfg" if tier == "thorough" else "MC_SM2Toy_quick.cfg")
    cmds = gen(chk, tier)
    # the scenario class names the violated side condition; carry it into the failure key
    cls_of = {c["sc"]: c["cls"] for c in cmds if c["op"] == "scenario"}

    def key(b):
        return keyfn(b) + "." + cls_of.get(b["sc"], "?").split("_bit")[0]
    chk.exec_and_validate("T_SM2", cmds, key, accel=True, families=("bits", "big"))
    chk.first_use("T_SM2", cmds, key, accel=True, families=("bits", "big"))
    return chk.finish(
        "model_checking",
        "valid triples built from (s, t) (e is free), every single-bit flip of (px, py, e, r, s) (quick: seeded "
        "sample), every argument at lengths 0/1/31/33/64, triples SOLVED to satisfy the verification equation while "
        "violating exactly one side condition (r = 0, s = 0, r >= n, s >= n, r + s = n, [s]G + [t]P = O), public keys "
        "with a non-canonical coordinate x + p AND y + p (points with a prescribed small y are roots of a cubic), off "
        "curve, (0,0), (p,p), (p, sqrt b), word-structured overshoots r, s = n-1+D and x, y = p-1+D, R chosen first with "
        "x_R in [n, p); id- and za-level wrappers; "
        "TLC decides each verdict with VerifyDef of module SM2",
        ["TLC; SM2.tla/EC.tla model-checked on a toy curve incl. VerifyTight (accepted => some nonce produces it)",
         "BigNat/EC accelerators compared with the TLA+ definitions on every run",
         "attacker inputs are structured classes + bit flips, not all byte strings"])


def replay(path):
    return generic_replay(PROP, path)
