"""C08 - SM2: secret scalars do not steer control flow or memory addressing."""
import json, os, subprocess, concurrent.futures as cf
from .. import core, extract
from ..run import Check, generic_replay
from ..sm2gen import Gen, N, P

PROP = "C08"
T256 = 1 << 256


def hx(v, n=32):
    return v.to_bytes(n, "big").hex()


def build_leak(chk):
    modfile = os.path.join(chk.rd, "go.mod")
    chk.drv()                      # writes go.mod / go.sum into the run directory
    out = os.path.join(chk.rd, "leak")
    p = core.sh(["go", "build", "-modfile=" + modfile, "-tags", "verif", "-o", out, "./leak"],
                cwd=os.path.join(core.VERIF, "harness"), env=core.GOENV, check=False, timeout=600)
    if p.returncode != 0:
        raise core.Infra("leak driver build failed:\n" + p.stdout[-3000:])
    nm = os.path.join(chk.rd, "leak.nm")
    q = subprocess.run(["go", "tool", "nm", "-n", "-size", "-type", out], capture_output=True, text=True, env=core.GOENV)
    if q.returncode != 0:
        raise core.Infra("go tool nm failed")
    open(nm, "w").write(q.stdout)
    return out, nm


def trace(chk, leak, nm, prim, secret_hex, public_hex, tag, limit):
    log = os.path.join(chk.rd, "lk_%s.log" % tag)
    env = dict(os.environ, GOGC="off", GOMAXPROCS="1", GODEBUG="asyncpreemptoff=1")
    cmd = ["valgrind", "--tool=lackey", "--trace-mem=yes", "--log-file=" + log, leak, prim, secret_hex]
    if public_hex is not None:
        cmd.append(public_hex)
    p = subprocess.run(cmd, capture_output=True, text=True, env=env, timeout=900)
    if p.returncode != 0:
        raise core.Infra("valgrind run failed for %s: %s" % (prim, (p.stdout + p.stderr)[-500:]))
    wide = prim not in ("signhashed", "ptbytes")
    q = subprocess.run([chk.drv(), "leakfilter", nm, log, str(limit)], capture_output=True, text=True, timeout=900,
                       env=dict(os.environ, LEAK_SCOPE_WIDE="1" if wide else "0"))
    os.unlink(log)
    if q.returncode != 0:
        raise core.Infra("leakfilter failed for %s: %s" % (prim, q.stderr[-500:]))
    return json.loads(q.stdout)


def plan(tier):
    """(primitive, mode, public, [secrets], item limit) - same public input, different secrets"""
    q = tier == "quick"
    nm1 = N - 1
    patA = int("a5" * 32, 16) % N
    patB = int("5a" * 32, 16) % N
    scal = [1, nm1 - 1, patA, patB, (1 << 255) % N, int("00" * 8 + "ff" * 24, 16), int("ff" * 4 + "00" * 28, 16) % N]
    if not q:
        # thorough: single bits at the comb-window positions, scalars with one window / nibble / byte zero, seeded random
        import random as _r
        rr = _r.Random(1000 + core.seed())
        scal += [1 << k for k in (17, 59, 101, 143, 185, 227, 252, 255)]
        scal += [patA & ~(0x3f << k) for k in (4, 46, 130, 250)] + [patB & ~(0xff << (8 * k)) for k in (0, 15, 31)]
        scal += [int("0" + "f" * 63, 16), int("00" + "a5" * 31, 16)]
        scal += [rr.randrange(1, N - 1) for _ in range(12)]
    jobs = [
        # comparison of a secret string with n-1: all "less" (same verdict), then across verdicts
        ("cmp", "same", hx(nm1), [hx(1), hx(patA), hx(nm1 - 1), hx(int("ff" * 3 + "00" * 29, 16))], 6000),
        ("cmp", "verdict", hx(nm1), [hx(1), hx(nm1), hx(T256 - 1), hx(patB)], 6000),
        ("testpriv", "same", None, [hx(1), hx(patA), hx(nm1 - 1), hx(1 << 200)], 6000),
        ("testpriv", "verdict", None, [hx(5), hx(0), hx(nm1), hx(T256 - 1)], 6000),
        ("extract", "same", None, [hx(0), hx(T256 - 1), hx(patA), hx(patB)], 6000),
        ("select", "same", None, ["%02x" % v for v in ((0, 1, 2, 31, 62, 63) if q else range(64))], 20000),
        ("nsetbytes", "same", None, [hx(1), hx(patA), hx(int("ff" * 3 + "00" * 29, 16)), hx(int("fffffffe" + "ff" * 12 + "00" * 16, 16)),
                                     hx(nm1 - 1)], 8000),
        ("psetbytes", "same", None, [hx(1), hx(patA), hx(int("ff" * 3 + "00" * 29, 16)), hx(P - 2)], 8000),
        ("pinvert", "same", None, [hx(1), hx(2), hx(patA), hx(P - 1), hx(0)] if not q else [hx(2), hx(patA), hx(P - 1), hx(0)], 0),
        ("ninvert", "same", None, [hx(1), hx(2), hx(patB), hx(nm1), hx(0)] if not q else [hx(2), hx(patB), hx(nm1), hx(0)], 0),
        ("basemult", "same", None, [hx(v) for v in (scal if not q else scal[:3] + [0])], 0),
    ]
    # the signing entry point with a fixed digest and nonce and different private keys, among them keys
    # whose 1+d has leading zero bytes (scoped symbols only: math/big and the runtime are not judged)
    pub = hx(int("3c" * 32, 16)) + hx(patB) + hx(patA)
    jobs.append(("signhashed", "verdict", pub, [hx(patA), hx(1), hx((1 << 240) + 5), hx(nm1 - 1), hx((1 << 200) - 2)]
                 if not q else [hx(patA), hx((1 << 240) + 5), hx(nm1 - 1)], 0))
    if not q:
        jobs.append(("mult", "same", None, [hx(v) for v in scal[:4] + scal[7:]] + [hx(0), hx(T256 - 1)], 0))
        jobs.append(("ptbytes", "same", None, [hx(v) for v in scal[:4]], 0))
    else:
        jobs.append(("mult", "same", None, [hx(scal[0]), hx(scal[2]), hx(0)], 0))
        jobs.append(("ptbytes", "same", None, [hx(scal[2]), hx(scal[0])], 0))
    return jobs


def attempt(chk, tier, ex, leak, nm, jobs, tag):
    tasks = []
    for ji, (prim, mode, pub, secrets, limit) in enumerate(jobs):
        for si, s in enumerate(secrets):
            tasks.append((ji, si, prim, s, pub, limit))
    res = {}
    with cf.ThreadPoolExecutor(max_workers=core.NCPU) as pool:
        futs = {pool.submit(trace, chk, leak, nm, t[2], t[3], t[4], "%d_%d" % (t[0], t[1]), t[5]): t for t in tasks}
        for f in cf.as_completed(futs):
            t = futs[f]
            res[(t[0], t[1])] = f.result()
    g = Gen(chk.rng)
    traced_items = 0
    for ji, (prim, mode, pub, secrets, limit) in enumerate(jobs):
        base = res[(ji, 0)]
        traced_items += sum(res[(ji, si)]["total"] for si in range(len(secrets)))
        hasitems = "items" in base
        for si in range(1, len(secrets)):
            other = res[(ji, si)]
            g.one("%s_%s" % (prim, mode), "leak.pair", prim=prim, mode=mode, secret_a=secrets[0], secret_b=secrets[si],
                  public=pub or "", a=base, b=other, hasitems=hasitems and "items" in other, slack=40)
    # schedules: executed call counts = what the comb model / extracted chains prescribe
    fc, sc_ = ex["field_chain"], ex["scalar_chain"]
    pre = "github.com/bilibili/smgo/sm2/internal"
    # the comb parameters come from the dispatch in the CURRENT source (ScalarBaseMult -> scalarBaseMult_..._W_S_I):
    # switching to another of the library's schemes is not a violation, its schedule is simply a different one
    import re as _re
    comb = None
    try:
        src = open(os.path.join(core.REPO, "sm2", "internal", "sm2_curve.go")).read()
        body = src[src.index("func ScalarBaseMult("):]
        body = body[:body.index("\n}")]
        live = [l for l in body.splitlines() if not l.strip().startswith("//")]
        m = _re.search(r"return scalarBaseMult_SkipBitExtraction_(\d+)_(\d+)_(\d+)\(", "\n".join(live))
        if m:
            comb = tuple(int(x) for x in m.groups())
    except (OSError, ValueError):
        comb = None
    sched = {}
    if comb:
        w_, s_, it_ = comb
        rem_ = 1 if 256 - w_ * s_ * it_ > 0 else 0
        sched["basemult"] = [dict(sym=pre + ".(*SM2Point).Double", n=it_ - 1), dict(sym=pre + ".(*SM2Point).Add", n=it_ * s_ - 1 + rem_),
                             dict(sym=pre + ".(*SM2Point).multiSelectConditioned", n=it_ * s_ + rem_)]
    else:
        chk.notes.append("comb parameters not readable from ScalarBaseMult: no schedule prescribed for basemult")
    sched.update({
        "pinvert": [dict(sym=pre + "/fiat.sm2Square", n=fc.get("declared_squares", -1)),
                    dict(sym=pre + "/fiat.sm2Mul", n=fc.get("declared_multiplies", -1))],
        "ninvert": [dict(sym=pre + "/fiat.sm2ScalarSquare", n=sc_.get("declared_squares", -1)),
                    dict(sym=pre + "/fiat.sm2ScalarMul", n=sc_.get("declared_multiplies", -1))],
    })
    # the signing entry point inverts 1+d by the fixed exponentiation, once (README: "inversion by a fixed exponentiation
    # instead of the Euclidean algorithm"): a variable-time modular inverse from math/big in its place would leave the
    # scoped traces equal across keys, so the use of the chain itself is part of the schedule
    sched["signhashed"] = [dict(sym=pre + "/fiat.sm2ScalarFermatInvert_FiatAC", n=1),
                           dict(sym=pre + "/fiat.sm2ScalarSquare", n=sc_.get("declared_squares", -1)),
                           dict(sym=pre + ".ScalarBaseMult", n=1)]
    # the safe encoding of a secret-derived point (public key derivation) inverts z the same way (twice: Bytes, GetAffineX)
    sched["ptbytes"] = [dict(sym=pre + "/fiat.sm2FermatInvert_FiatAC", n=2),
                        dict(sym=pre + "/fiat.sm2Square", n=2 * fc.get("declared_squares", -1))]
    # an inversion routine that could not be read as an addition chain has no prescribed schedule
    sched = {k: v for k, v in sched.items() if all(e["n"] >= 0 for e in v)}
    # a prescribed count applies only to a symbol that exists in the binary: a renamed or inlined function is not a
    # finding (the traces still have to be equal across secrets)
    present = set(l.split()[-1] for l in open(nm) if l.strip())
    for k in list(sched):
        kept = [e for e in sched[k] if e["sym"] in present]
        if len(kept) != len(sched[k]):
            chk.notes.append("schedule of %s: symbol(s) not in the binary, entries dropped: %s" % (
                k, [e["sym"] for e in sched[k] if e["sym"] not in present]))
        sched[k] = kept
    for ji, (prim, mode, pub, secrets, limit) in enumerate(jobs):
        if prim in sched:
            g.one("schedule_" + prim, "leak.schedule", prim=prim, records=res[(ji, 0)]["records"], expect=sched[prim])
    cmds = g.cmds

    def keyfn(b):
        ev = b["ev"]
        return "leak.%s.%s" % (ev["prim"], "schedule" if ev["op"] == "leak.schedule" else ev.get("mode", ""))
    chk.exec_and_validate("T_Leak", cmds, keyfn, tag=tag)
    chk.extra["trace_items"] = chk.extra.get("trace_items", 0) + traced_items
    chk.extra["traced_runs"] = chk.extra.get("traced_runs", 0) + len(tasks)


def run(tier):
    chk = Check(PROP, tier)
    chk.model("MC_LeakToy")
    ex = extract.write_extracted(chk)
    leak, nm = build_leak(chk)
    jobs = plan(tier)
    attempt(chk, tier, ex, leak, nm, jobs, "t1")
    if chk.bad:
        # a difference counts only if it shows again when both processes are traced afresh
        # (runtime noise must never become an alarm)
        first = {b["key"]: b for b in chk.bad}
        chk.bad = []
        attempt(chk, tier, ex, leak, nm, jobs, "t2")
        second = {b["key"] for b in chk.bad}
        chk.bad = [first[k] for k in first if k in second]
        if not chk.bad:
            raise core.Infra("trace differences %s did not reproduce on freshly traced processes" % sorted(first))
    return chk.finish(
        "model_checking",
        "model: non-interference of the algorithm-level observations (masked selection, borrow-chain comparison, fixed "
        "window schedule, fixed addition chain) by self-composition over ALL pairs of toy secrets, and the README's three "
        "ruled-out designs shown to violate it; code: for each primitive (ConstantTimeCmp, TestPrivateKey, bit "
        "extraction, table selection, scalar/field decoding, both Fermat inversions, ScalarBaseMult, ScalarMult, safe "
        "affine conversion) the real binary is traced under valgrind-lackey for several secrets with identical public "
        "input; the instruction + load/store address traces (scoped, heap pages renamed by first touch) must be "
        "identical (or identical up to the final verdict), as compared by TLC; executed call counts must equal the "
        "schedule the comb model and the extracted chains prescribe",
        ["TLC; valgrind-lackey; the 150-line segmenter/hasher (harness/drv/leakfilter.go); symbol scoping "
         "(smgo/..., crypto/subtle, math/bits)",
         "secrets are sampled (boundary patterns, all-ones/zeros windows), not all 2^256; micro-architectural timing is "
         "out of scope; big.Int glue inside SignHashed and everything named *_Unsafe is out of scope by the property"])


def replay(path):
    return run("quick")
