"""C18 - Every precomputed constant equals the value its derivation gives."""
import os, re
from .. import core
from ..sm2gen import Gen
from ..run import Check, generic_replay

PROP = "C18"
SCHEMES = [(4, 2, 32, 0), (5, 3, 17, 1), (6, 3, 14, 4), (7, 3, 12, 4)]

DATA_RE = re.compile(r"^\s*DATA\s+(\w+)<>\+(0x[0-9a-fA-F]+|\d+)\(SB\)/(\d+),\s*\$(0x[0-9a-fA-F]+|\d+)")
GLOBL_RE = re.compile(r"^\s*GLOBL\s+(\w+)<>\(SB\),\s*\([^)]*\),\s*\$(\d+)")
DEF_RE = re.compile(r"^#define\s+(\w+)\s+(0b[01]+|0x[0-9a-fA-F]+|\d+)\s*$")


def parse_data(path):
    """symbol -> list of bytes in memory order (little-endian placement), from DATA/GLOBL"""
    syms, sizes, defs = {}, {}, {}
    for line in open(path):
        m = DATA_RE.match(line)
        if m:
            name, off, width, val = m.group(1), int(m.group(2), 0), int(m.group(3)), int(m.group(4), 0)
            buf = syms.setdefault(name, {})
            for i in range(width):
                buf[off + i] = (val >> (8 * i)) & 0xff
            continue
        m = GLOBL_RE.match(line)
        if m:
            sizes[m.group(1)] = int(m.group(2))
            continue
        m = DEF_RE.match(line)
        if m:
            defs[m.group(1)] = int(m.group(2), 0)
    out = {}
    for name, buf in syms.items():
        n = sizes.get(name, max(buf) + 1)
        if sorted(buf) != list(range(n)):
            raise core.Infra("DATA %s in %s does not cover its GLOBL size" % (name, path))
        out[name] = [buf[i] for i in range(n)]
    return out, defs


def gen(chk):
    g = Gen(chk.rng)
    for s, (w, sub, it, rem) in enumerate(SCHEMES):
        for j in range(sub):
            g.one("comb_%d_%d_%d_%d" % (w, sub, it, rem), "tab.comb", scheme=s, j=j)
        g.one("remainder_%d_%d_%d_%d" % (w, sub, it, rem), "tab.rem", scheme=s)
    g.one("sm4_tables", "tab.sm4")
    g.one("sm3_constants", "tab.sm3")
    g.one("curve_parameters", "tab.curve")
    g.one("field_code_constants", "tab.fiat")
    sm4 = os.path.join(core.REPO, "sm4")
    com, cdefs = parse_data(os.path.join(sm4, "com_amd64.s"))
    asm, _ = parse_data(os.path.join(sm4, "asm_amd64.s"))
    gcm, _ = parse_data(os.path.join(sm4, "gcm_amd64.s"))
    need = [("Shuffle", com), ("PreAffineMatrix", com), ("PostAffineMatrix", com), ("FK", asm), ("CK", asm),
            ("Shuffle1", gcm), ("Shuffle2", gcm), ("AND_MASK", gcm), ("LOWER_MASK", gcm), ("GCM_POLY", gcm),
            ("Counter_Add1", gcm), ("Counter_Add2", gcm)]
    for n, d in need:
        if n not in d:
            raise core.Infra("DATA symbol %s not found" % n)
    for n in ("PreAffineConstant", "PostAffineConstant"):
        if n not in cdefs:
            raise core.Infra("#define %s not found" % n)
    g.one("asm_amd64_data", "asm.amd64", pre=com["PreAffineMatrix"], prec=cdefs["PreAffineConstant"],
          post=com["PostAffineMatrix"], postc=cdefs["PostAffineConstant"], fk=asm["FK"], ck=asm["CK"],
          shuffle=com["Shuffle"], shuffle1=gcm["Shuffle1"], shuffle2=gcm["Shuffle2"], andmask=gcm["AND_MASK"],
          lowermask=gcm["LOWER_MASK"], gcmpoly=gcm["GCM_POLY"], ctr1=gcm["Counter_Add1"], ctr2=gcm["Counter_Add2"])
    arm, _ = parse_data(os.path.join(sm4, "asm_arm64.s"))
    for n in ("SBox", "FK", "CK"):
        if n not in arm:
            raise core.Infra("arm64 DATA symbol %s not found" % n)
    g.one("asm_arm64_data", "asm.arm64", sbox=arm["SBox"], fk=arm["FK"], ck=arm["CK"])
    # constants that the arm64 files build with instruction immediates instead of DATA blocks: the GHASH reduction
    # constant (register macro `Reduce`: x^128 + x^7 + x^2 + x + 1 -> 0x87 in each 64-bit lane) and the 64-byte table
    # stride of the TBL-based S-box (`CONST`).  Every initialisation of either register is evaluated: VMOVI $imm, R.B16
    # gives sixteen bytes imm; MOVD $imm, Rn ; VDUP Rn, R.D2 gives two 64-bit lanes imm.
    import re
    inits = []
    for fn in ("gcm_arm64.s", "asm_arm64.s"):
        txt = open(os.path.join(sm4, fn)).read()
        defs = dict(re.findall(r"#define\s+(\w+)\s+(V\d+)\b", txt))
        names = {v: k for k, v in defs.items() if k in ("Reduce", "CONST")}
        lines = [l.split("//")[0].strip().rstrip("\\").strip() for l in txt.splitlines()]
        gpr = {}
        for l in lines:
            m = re.match(r"MOVD\s+\$(0x[0-9a-fA-F]+|\d+),\s*(R\d+)$", l)
            if m:
                gpr[m.group(2)] = int(m.group(1), 0)
                continue
            m = re.match(r"VMOVI\s+\$(0x[0-9a-fA-F]+|\d+),\s*(\w+)\.B16$", l)
            if m and (m.group(2) in ("Reduce", "CONST") or m.group(2) in names):
                nm = m.group(2) if m.group(2) in ("Reduce", "CONST") else names[m.group(2)]
                v = int(m.group(1), 0)
                inits.append(dict(reg=nm, file=fn, bytes=[v & 0xff] * 16))
                continue
            m = re.match(r"VDUP\s+(R\d+),\s*(\w+)\.D2$", l)
            if m and (m.group(2) in ("Reduce", "CONST") or m.group(2) in names):
                nm = m.group(2) if m.group(2) in ("Reduce", "CONST") else names[m.group(2)]
                if m.group(1) not in gpr:
                    raise core.Infra("arm64: VDUP of a register whose immediate was not seen (%s: %s)" % (fn, l))
                inits.append(dict(reg=nm, file=fn, bytes=list(gpr[m.group(1)].to_bytes(8, "little")) * 2))
                continue
            m = re.match(r"V\w+\s+.*,\s*(Reduce|CONST)\.\w+$", l)
            if m and not l.startswith(("VPMULL", "VTBL", "VSUB", "VEOR", "VTBX")):
                pass
    if not any(i["reg"] == "Reduce" for i in inits) or not any(i["reg"] == "CONST" for i in inits):
        raise core.Infra("arm64: initialisation of Reduce / CONST not found in a form this check evaluates")
    g.one("asm_arm64_immediates", "asm.arm64imm", inits=inits)
    return g.cmds


def keyfn(b):
    ev = b["ev"]
    k = b["why"].replace(": ", ".").replace(" ", "_").replace("/", "_")
    if ev["op"] in ("tab.comb", "tab.rem"):
        k += ".scheme_%d" % ev["scheme"] + (".j%d" % ev["j"] if "j" in ev else "")
    return k


def run(tier):
    chk = Check(PROP, tier)
    chk.model("MC_Vectors")
    cmds = gen(chk)
    evs = chk.exec_and_validate("T_Tables", cmds, keyfn, accel=True, families=("bits", "big"))
    entries = 0
    for e in evs:
        if e["op"] in ("tab.comb", "tab.rem"):
            entries += len(e["xs"])
    chk.extra["sm2_table_points"] = entries
    chk.extra["small_entries"] = 256 * 5 + 32 + 4 + 64 + 8 + 256 + 2 * (16 + 128) + 16 * 6 + 128 + 16
    return chk.finish(
        "model_checking",
        "complete enumeration: every entry of the four SM2 comb tables and three remainder tables (x and y, Montgomery "
        "form) recomputed as the stated multiple of G; all 256 S-box entries from the algebraic definition; 4 x 256 "
        "T-table entries; 32 CK, 4 FK, 64 Tj, IV; curve parameter block; amd64 DATA (GFNI pre/post affine matrices and "
        "constants checked for all 256 inputs with the SDM semantics of GF2P8AFFINEQB/INVQB, FK/CK copies, GHASH "
        "polynomial, shuffles, nibble-reversal table, counter increments) and arm64 DATA (S-box, FK, CK copies)",
        ["TLC; derivations are the formulas of the standards / make_table.go as stated in the property",
         "permutation-index constants of the GHASH lane shuffles (SHUFFLE_X_LANES, MERGE_H*, Counter_Add3) have no "
         "published derivation and are covered functionally by C06, not here"],
        exhaustive=True)


def replay(path):
    return generic_replay(PROP, path)
