"""C14 - SM2 scalar multiplication equals the integer multiple, for all scalars."""
from .. import core, ecpy as ec
from ..sm2gen import Gen, rb, b32, N, P, rscalar, limb_structured
from ..run import Check, generic_replay
from .c15 import proj

PROP = "C14"
T256 = 1 << 256
SCHEMES = {0: (4, 2, 32, 0), 1: (5, 3, 17, 1), 2: (6, 3, 14, 4), 3: (7, 3, 12, 4)}


def window_scalars(rng, scheme, tier):
    """every window (sub-table j, iteration i) set to every value, all other bits 0 / all 1"""
    w, sub, it, rem = SCHEMES[scheme]
    out = []
    vals = range(1, 1 << w) if tier == "thorough" else sorted(set([1, (1 << w) - 1, rng.randrange(1, 1 << w)]))
    for j in range(sub):
        for i in (range(it) if tier == "thorough" else sorted(set([0, it - 1, rng.randrange(it)]))):
            for v in vals:
                k = 0
                for bit in range(w):
                    if (v >> bit) & 1:
                        k |= 1 << (bit * sub * it + i + j * it + rem)
                out.append(k)
                out.append((T256 - 1) ^ k)
    for v in range(0, 1 << rem):
        out.append(v)
        out.append((T256 - 1) ^ v)
    return out


def gen(chk, tier):
    rng = chk.rng
    g = Gen(rng)
    q = tier == "quick"
    special = [0, 1, 2, N - 1, N, N + 1, T256 - 1, 1 << 255, (1 << 255) - 1, P, 15, 16, 17, 1 << 252]
    # fixed-base: the scheme in use through the public entry point, and all four schemes
    for scheme in (-1, 0, 1, 2, 3):
        ks = list(special) + [rng.getrandbits(256) for _ in range(8 if q else 1500)]
        ks += window_scalars(rng, 2 if scheme < 0 else scheme, tier)
        # scalars in [n, 2^256): any reduction of the scalar happens only there (2^-32 of all scalars)
        nb = b32(N)
        for _ in range(12 if q else 800):
            v = rng.randrange(N, T256)
            ks.append(v)
            vb = list(v.to_bytes(32, "big"))          # agree with n on some bytes, to provoke borrow chains
            for i in rng.sample(range(32), rng.randrange(1, 12)):
                vb[i] = nb[i]
            v2 = int.from_bytes(bytes(vb), "big")
            if v2 >= N:
                ks.append(v2)
        ks += limb_structured(rng, 8 if q else 800)          # limbs with zero halves, single bits, ...
        # just below and above n: k mod n is tiny, so the multiple is reached through a wrap-around (the last table point
        # added can then EQUAL the accumulated point - a place where incomplete addition formulas break)
        ks += [N + j for j in (range(-16, 101) if q else range(-64, 700))] + [T256 - 1 - j for j in range(0, 8 if q else 64)]
        for k in ks:
            g.one("base_scheme_%s" % ("public" if scheme < 0 else "_".join(map(str, SCHEMES[scheme]))), "sm.base",
                  scheme=scheme, k=b32(k))
    for L in (0, 1, 31, 33):
        g.one("base_length", "sm.base", scheme=-1, k=rb(rng, L))
    # variable point: every nibble value at every position, special points, any scalar length
    pts = [("G", ec.G), ("minusG", ec.neg(ec.G)), ("2G", ec.mul(2)), ("3G", ec.mul(3)), ("15G", ec.mul(15)),
           ("random", ec.mul(rscalar(rng))), ("inf", None)]
    for name, pt in pts:
        ks = list(special[:8]) + [rng.getrandbits(256) for _ in range(3 if q else 40)]
        if name in ("G", "random"):
            for pos in (range(64) if not q else (0, 1, 31, 62, 63)):
                for v in (range(1, 16) if not q else (1, 8, 15)):
                    ks.append(v << (4 * pos))
                    ks.append((T256 - 1) ^ (v << (4 * pos)))
        ks += limb_structured(rng, 4 if q else 60)
        for k in ks:
            g.one("mult_" + name, "sm.mult", p1=proj(rng, pt), k=b32(k))
    for L in [0, 1, 2, 5, 16, 31, 33, 40]:
        g.one("mult_length_%d" % L, "sm.mult", p1=proj(rng, ec.mul(rscalar(rng))), k=rb(rng, L))
    # the two other variable-point multiplications the library keeps (double-and-add baseline, Montgomery ladder)
    for alg in ("daa", "ladder"):
        for name, pt in pts:
            ks = list(special[:8]) + [rng.getrandbits(256) for _ in range(2 if q else 30)] + limb_structured(rng, 2 if q else 40)
            ks += [rng.getrandbits(8 * L) for L in (1, 5, 31)]
            for k in ks:
                kb = b32(k) if k >= 1 << 248 or rng.random() < 0.7 else list(k.to_bytes(max(1, (k.bit_length() + 7) // 8), "big"))
                g.one("mult_%s_%s" % (alg, name), "sm.mult", alg=alg, p1=proj(rng, pt), k=kb)
    # double-scalar: G side comb x P side signed 4-NAF
    for name, pt in pts[:6]:
        pairs = [(gk, sk) for gk in special[:7] for sk in (special[:7] if not q else special[:7:3])]
        pairs += [(rng.getrandbits(256), rng.getrandbits(256)) for _ in range(6 if q else 1500)]
        if name == "random":
            for ks_ in window_scalars(rng, 2, "quick"):
                pairs.append((ks_, rng.getrandbits(256)))
            for pos in (range(0, 256, 1 if not q else 37)):
                for v in (1, 7, 9, 15, 16, 31):
                    pairs.append((rng.getrandbits(256), (v << pos) % T256))
                    pairs.append((rng.getrandbits(256), (T256 - 1) ^ ((v << pos) % T256)))
        st = limb_structured(rng, 6 if q else 100)
        pairs += [(rng.choice(st), rng.choice(st)) for _ in range(4 if q else 600)]
        for (gk, sk) in pairs:
            g.one("mixed_" + name, "sm.mixed", g=b32(gk), p1=proj(rng, pt, z=1), s=b32(sk))
    return g.cmds


def keyfn(b):
    ev = b["ev"]
    k = b["why"].replace(": ", ".").replace(" ", "_").replace("[", "").replace("]", "").replace("+", "plus")
    if ev["op"] == "sm.base":
        k += ".scheme_%s" % ev.get("scheme")
    return k


def run(tier):
    chk = Check(PROP, tier)
    chk.model("MC_Comb")
    cmds_ = gen(chk, tier)
    chk.exec_and_validate("T_EC", cmds_, keyfn, accel=True, families=("bits", "big"))
    chk.first_use("T_EC", cmds_, keyfn, accel=True, families=("bits", "big"))
    return chk.finish(
        "model_checking",
        "model: at production parameters, for each of the four comb schemes every bit of the scalar is assigned exactly "
        "once to a (sub-table, slot, doubling count) whose weight is 2^bit (MC_Comb); traces: all four fixed-base "
        "schemes and the public entry point on 0, 1, n-1, n, n+1, 2^256-1, every window set to every value at every "
        "position with the other bits 0 and 1 (quick: sampled positions/values), variable-point multiplication with "
        "every nibble value at every position on G, -G, 2G, 3G, 15G, random, O and scalar lengths 0..40, double-scalar "
        "multiplication with structured NAF patterns; TLC recomputes each with the affine double-and-add of module EC",
        ["TLC; EC.tla (toy-curve group axioms); EC accelerator compared with the TLA+ double-and-add every run",
         "scalars are structured + sampled, not all 2^256"])


def replay(path):
    return generic_replay(PROP, path)
