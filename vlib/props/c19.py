"""C19 - A failing randomness source yields an error, never a key or signature."""
import re
from .. import core, sm2gen
from ..sm2gen import Gen, rb, b32, N, rscalar
from ..run import Check, generic_replay

PROP = "C19"


def mbt_scripts(chk):
    """R4: the scripts explored by the small model MC_Reader (Unit = 2 symbols) are printed by
    TLC (MC_Reader_mbt.cfg: every script shape as a list of (chunk length, error)); each shape
    is concretised to 32-byte units below."""
    r = chk.model("MC_Reader", cfg="MC_Reader_mbt.cfg", workers=4)
    shapes = set()
    for m in re.finditer(r'<<"SCRIPT", <<(.*?)>>>>', r["out"]):
        body = m.group(1)
        steps = re.findall(r'<<(\d+), "(\w*)">>', body)
        shapes.add(tuple((int(n), e) for n, e in steps))
    if not shapes:
        raise core.Infra("MC_Reader printed no script shapes")
    return sorted(shapes)


def concretise(rng, shape, first_rejected):
    """toy chunk of k symbols (unit 2) -> real chunk: 0 -> 0 bytes, 1 -> 1..31 bytes, 2 -> 32,
    3 -> 33..63.  The byte stream is a sequence of candidates: `first_rejected` rejected ones
    (0, n, n-1 for key generation), then valid ones."""
    lens = []
    for (k, e) in shape:
        L = [0, rng.randrange(1, 32), 32, rng.randrange(33, 64)][k]
        lens.append((L, e))
    total = sum(L for L, _ in lens)
    stream = []
    i = 0
    while len(stream) < total + 64:
        if i < len(first_rejected):
            stream += b32(first_rejected[i])
        else:
            stream += b32(rscalar(rng))
        i += 1
    steps, pos = [], 0
    for L, e in lens:
        steps.append(dict(d=stream[pos:pos + L], err=e))
        pos += L
    return steps


def gen(chk, tier):
    rng = chk.rng
    g = Gen(rng)
    q = tier == "quick"
    shapes = mbt_scripts(chk)
    if q:
        rng.shuffle(shapes)
        shapes = shapes[:120]
    d = rscalar(rng)
    for sh in shapes:
        for nrej in ((0, 1) if q else (0, 1, 2)):
            rej_k = [rng.choice([0, N, N + 5, (1 << 256) - 1]) for _ in range(nrej)]
            rej_d = [rng.choice([0, N - 1, N, (1 << 256) - 1]) for _ in range(nrej)]
            cls = "mbt_%dsteps_%s_rej%d" % (len(sh), "fault" if any(e for _, e in sh) else "clean", nrej)
            g.one("genkey_" + cls, "sm2.genkey", nilreader=False, script=concretise(rng, sh, rej_d))
            g.one("sign_" + cls, "sm2.sign", kind="hashed", priv=b32(d), e=rb(rng, 32), script=concretise(rng, sh, rej_k))
    # every byte offset of the first failure in a stream that begins with 0..2 rejected candidates
    offs = range(0, 97, 5 if q else 1)
    for nrej in (0, 1, 2):
        for off in offs:
            for err in ("EOF", "boom"):
                for withdata in (True, False):
                    rej = [0, N][:nrej]
                    stream = []
                    for c in rej:
                        stream += b32(c)
                    while len(stream) < 100:
                        stream += b32(rscalar(rng))
                    if withdata:
                        script = [dict(d=stream[:off], err=err)]
                    else:
                        script = [dict(d=stream[:off], err=""), dict(d=[], err=err)]
                    if q and (off + nrej) % 2 and not withdata:
                        continue
                    g.one("fault_at_%s" % ("unit_boundary" if off % 32 == 0 else "mid_unit"), "sm2.genkey",
                          nilreader=False, script=script)
                    g.one("fault_at_%s" % ("unit_boundary" if off % 32 == 0 else "mid_unit"), "sm2.sign", kind="hashed",
                          priv=b32(d), e=rb(rng, 32), script=[dict(s) for s in script])
    # a source that returns an error in the middle of a unit and THEN keeps delivering bytes: the call
    # must still fail at that error (n > 0 with EOF, n > 0 with another error, n = 0), also after
    # rejected candidates
    for nrej in (0, 1, 2):
        for part in (1, 10, 31):
            for err in ("EOF", "boom"):
                for zero in (False, True):
                    rej = [0, N][:nrej]
                    pre = []
                    for c_ in rej:
                        pre += b32(c_)
                    good = b32(rscalar(rng)) + b32(rscalar(rng)) + b32(rscalar(rng))
                    if zero:
                        script = [dict(d=pre + good[:part], err=""), dict(d=[], err=err), dict(d=good[part:], err="")]
                    else:
                        script = [dict(d=pre + good[:part], err=err), dict(d=good[part:], err="")]
                    g.one("error_then_more_data", "sm2.genkey", nilreader=False, script=script)
                    g.one("error_then_more_data", "sm2.sign", kind="hashed", priv=b32(d), e=rb(rng, 32),
                          script=[dict(x) for x in script])
    # short reads without error are completed (1-byte reads, ragged reads)
    for _ in range(4 if q else 40):
        stream = b32(0) + b32(rscalar(rng)) + b32(rscalar(rng))
        script, pos = [], 0
        while pos < len(stream):
            L = rng.choice([1, 1, 2, 7, 31, 33])
            script.append(dict(d=stream[pos:pos + L], err=""))
            pos += L
        g.one("short_reads", "sm2.genkey", nilreader=False, script=script)
        g.one("short_reads", "sm2.sign", kind="hashed", priv=b32(d), e=rb(rng, 32), script=[dict(s) for s in script])
    g.one("nil_reader", "sm2.genkey", nilreader=True, script=[])
    # a failure after VERY many rejected candidates (a retry limit that gives up must still give up with an error, and
    # before it the source's failure must still be reported): n copies of one rejected candidate, then EOF / a fault in
    # the middle of the next draw
    from ..sm2gen import N as _N
    for n_, cand in ((5000, (1 << 256) - 1), (70000, 0), (70000, _N - 1)):
        for tail in ([], [dict(d=b32(rscalar(rng))[:11], err="boom")], [dict(d=[], err="boom")]):
            g.one("failure_after_long_run", "sm2.genkey", nilreader=False, run=dict(d=b32(cand), n=n_), script=[dict(x) for x in tail])
            if cand != _N - 1:            # n-1 is a valid nonce
                g.one("failure_after_long_run", "sm2.sign", kind="hashed", priv=b32(d), e=rb(rng, 32), run=dict(d=b32(cand), n=n_),
                      script=[dict(x) for x in tail])
    # the id/za-level entry points under a failing source
    for kind in ("za", "id"):
        kw = dict(kind=kind, priv=b32(d), msg=rb(rng, 5), script=[dict(d=b32(0) + b32(1)[:10], err="boom")])
        if kind == "za":
            kw["za"] = rb(rng, 32)
        else:
            kw.update(id=rb(rng, 16), pubx=rb(rng, 32), puby=rb(rng, 32))
        g.one("wrapper_fault", "sm2.sign", **kw)
    return g.cmds


def keyfn(b):
    ev, why = b["ev"], b["why"]
    return why.replace(": ", ".").replace(" ", "_").replace("(", "").replace(")", "").replace(",", "").replace("/", "or")


def run(tier):
    chk = Check(PROP, tier)
    chk.model("MC_Reader", cfg="MC_Reader.cfg" if tier == "quick" else "MC_Reader_thorough.cfg", timeout=3000)
    # the loop as a step-level machine against an adversarial, never-ending source: bounded refinement to
    # SignFlow (TLC), invariants for unbounded retries / scripts / Unit in {1, 2, 32} (Apalache)
    chk.model("MC_SignLoop", cfg="MC_SignLoop.cfg" if tier == "quick" else "MC_SignLoop_thorough.cfg", timeout=3000)
    chk.inductive("SignLoop", cinit="CInit")
    chk.proof("SignLoopProof")          # the same invariant for EVERY unit size (TLAPS, 21 obligations, ~11 s)
    chk.exec_and_validate("T_SM2", gen(chk, tier), keyfn, accel=True, families=("bits", "big"))
    return chk.finish(
        "model_checking",
        "every script shape of the small model MC_Reader (all sequences of <= 3 Read results with chunk length 0 / "
        "short / one unit / more than a unit and error none / EOF / fault) concretised to 32-byte units with 0..2 "
        "rejected candidates first; the first failure at every byte offset 0..96 (error with the last bytes or on the "
        "next call, EOF or other); ragged short reads; nil reader; wrappers; for GenerateKey and SignHashed; TLC "
        "recomputes (error?, outputs nil?, bytes consumed) with SignFlow over Reader",
        ["TLC; SignFlow/Reader model-checked exhaustively against the unit-stream definition in MC_Reader",
         "SignLoop (one action per Read / candidate test, source = environment): IndInv discharged by Apalache for every "
         "reachable state; MC_SignLoop checks with TLC that SignLoop's outcomes are SignFlow's on the recorded script",
         "an error accompanying the bytes that complete a unit is not a failure of that draw (io.ReadFull semantics)"])


def replay(path):
    return generic_replay(PROP, path)
