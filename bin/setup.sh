#!/bin/sh
# setup_cmd: builds the TLC accelerator classes and warms the Go build cache, offline.
set -e
cd "$(dirname "$0")/.."
export GOFLAGS=-mod=mod GOPROXY=off GOSUMDB=off GOTOOLCHAIN=local
mkdir -p tla/overrides/classes
if ls tla/overrides/*.java >/dev/null 2>&1; then
  javac -nowarn -cp /opt/veriftools/tla/tla2tools.jar:/opt/veriftools/tla/CommunityModules-deps.jar \
        -d tla/overrides/classes tla/overrides/*.java
fi
cp /repo/go.sum harness/go.sum
(cd harness && go build -tags verif -o /dev/null ./drv) || echo "setup: harness build failed (checks will report it)" >&2
echo setup ok
